"""Process pool for fanning case lists out over the cores.

Workers are long-lived forked processes; each imports iodata once and asserts it is the tree under
test.  ``fn`` must be a module-level function ``fn(chunk, seed, tier) -> dict`` (a Part.result()).
"""

from __future__ import annotations

import multiprocessing as mp
import os
import sys
import traceback

from .core import REPO


def assert_tree():
    import iodata

    root = os.path.realpath(os.path.dirname(os.path.dirname(iodata.__file__)))
    want = os.path.realpath(str(REPO))
    if root != want:
        raise SystemExit(f"HARNESS-ERROR: iodata imported from {root}, expected {want}")


def _call(args):
    fn, chunk, seed, tier = args
    try:
        return fn(chunk, seed, tier)
    except BaseException:  # noqa: BLE001 - report harness crashes loudly
        return {"harness_error": traceback.format_exc(), "chunk": repr(chunk)[:500]}


def chunks(items, n):
    items = list(items)
    return [items[i : i + n] for i in range(0, len(items), n)]


def pmap(ctx, fn, items, chunk=None):
    """Run fn over items in parallel and merge all parts into ctx."""
    items = list(items)
    if not items:
        return
    nproc = max(1, min(ctx.nproc, len(items)))
    if chunk is None:
        chunk = max(1, min(64, len(items) // (nproc * 4) or 1))
    jobs = [(fn, c, ctx.seed, ctx.tier) for c in chunks(items, chunk)]
    if nproc == 1 or os.environ.get("VERIF_SERIAL"):
        results = map(_call, jobs)
    else:
        mpctx = mp.get_context("fork")
        pool = mpctx.Pool(nproc, initializer=assert_tree)
        try:
            results = list(pool.imap_unordered(_call, jobs))
        finally:
            pool.close()
            pool.join()
    for part in results:
        if "harness_error" in part:
            print("HARNESS-ERROR in worker:\n" + part["harness_error"], file=sys.stderr)
            print("chunk:", part["chunk"], file=sys.stderr)
            raise SystemExit(3)
        ctx.merge(part)
