"""Fault-injecting replacement for the ``open`` that iodata.api uses for writing (installed from outside)."""

from __future__ import annotations

import builtins
import errno
import io


class FaultyFile(io.TextIOBase):
    """Text file wrapper that counts write() calls and raises OSError(ENOSPC) on the k-th one."""

    def __init__(self, real, fail_at=None, log=None, bare=False):
        super().__init__()
        self.bare = bare
        self._real = real
        self.name = real.name
        self.nwrite = 0
        self.fail_at = fail_at
        self.log = log if log is not None else []

    def writable(self):
        return True

    def write(self, s):
        self.nwrite += 1
        self.log.append(("write", len(s)))
        if self.fail_at is not None and self.nwrite == self.fail_at:
            if self.bare == "DumpError":  # the library's own error type raised by the writing step
                from iodata.utils import DumpError

                raise DumpError("injected failure while writing", self.name)
            if self.bare:
                raise OSError  # an exception without arguments (args == ())
            raise OSError(errno.ENOSPC, "No space left on device (injected)")
        return self._real.write(s)

    def flush(self):
        if not self._real.closed:
            self._real.flush()

    def close(self):
        self.log.append(("close", 0))
        self._real.close()
        super().close()

    @property
    def closed(self):
        return self._real.closed


class OpenPatch:
    """with OpenPatch(fail_at=k) as p: ...  -- p.files lists every file iodata.api opened."""

    def __init__(self, fail_at=None, bare=False):
        self.fail_at = fail_at
        self.bare = bare
        self.files = []
        self.left_open = []
        self.log = []

    def __enter__(self):
        import iodata.api

        self._api = iodata.api
        self._had = "open" in vars(iodata.api)
        self._old = vars(iodata.api).get("open")

        def opener(filename, mode="r", *a, **k):
            real = builtins.open(filename, mode, *a, **k)
            if "w" in mode:
                f = FaultyFile(real, self.fail_at, self.log, self.bare)
                self.files.append(f)
                return f
            return real

        iodata.api.open = opener
        return self

    def __exit__(self, *exc):
        if self._had:
            self._api.open = self._old
        else:
            del self._api.open
        # what the code under test left open is remembered for the oracle, then cleaned up
        self.left_open = [f for f in self.files if not f.closed]
        for f in self.left_open:
            f._real.close()
