"""ESB - explicit-state breadth-first search over a real transition function.

A state is identified with an event history reaching it (live objects rarely copy), exactly the
idiom of the brief.  ``build(hist)`` replays the history on a fresh real object and returns an
opaque state object; ``canon(state)`` returns a hashable canonical form of *every* field that can
influence a future observation, so that merging two histories is sound.
"""

from __future__ import annotations

import collections


class Graph:
    def __init__(self):
        self.states = 0
        self.transitions = 0
        self.max_depth = 0
        self.frontier_left = 0
        self.depth_histogram = {}


def bfs(initial_hists, ops_of, build, canon, on_transition, depth, on_state=None, max_states=None):
    """Explore all histories up to ``depth`` operations beyond each initial history.

    initial_hists : iterable of histories (tuples of events)
    ops_of(state) : iterable of events enabled in that state
    build(hist)   : replay on the real code -> state (must be deterministic)
    canon(state)  : hashable
    on_transition(hist, ev, state_before, state_after) : oracle hook (state_after built from hist+ev)
    on_state(hist, state) : oracle hook evaluated once per distinct state
    Returns a Graph with the numbers actually explored.
    """
    g = Graph()
    seen = {}
    frontier = collections.deque()
    for h in initial_hists:
        h = tuple(h)
        st = build(h)
        k = canon(st)
        if k not in seen:
            seen[k] = h
            frontier.append((h, 0))
            g.depth_histogram[0] = g.depth_histogram.get(0, 0) + 1
            if on_state:
                on_state(h, st)
    capped = False
    while frontier:
        hist, d = frontier.popleft()
        g.max_depth = max(g.max_depth, d)
        if d >= depth:
            continue
        before = build(hist)
        for ev in ops_of(before):
            before = build(hist)  # fresh object: transitions must not see each other's side effects
            nxt_hist = hist + (ev,)
            after = build(nxt_hist)
            g.transitions += 1
            on_transition(hist, ev, before, after)
            k = canon(after)
            if k not in seen:
                if max_states is not None and len(seen) >= max_states:
                    capped = True
                    continue
                seen[k] = nxt_hist
                frontier.append((nxt_hist, d + 1))
                g.depth_histogram[d + 1] = g.depth_histogram.get(d + 1, 0) + 1
                if on_state:
                    on_state(nxt_hist, after)
    g.states = len(seen)
    g.capped = capped
    g.witness = seen
    return g
