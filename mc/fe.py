"""FE - fault / crash-point enumeration helpers for text files."""

from __future__ import annotations

import re
import signal

TOKEN_MENU = ["", "abc", "-", "1e999", "99999999999", "*****", "nan", "MULT1000", "DEC1", "INC1", "HUGEINT", "ZERO"]


class Timeout(BaseException):  # not an Exception: the API wrappers translate every Exception into LoadError
    pass


class watchdog:
    """CPU-time limit (ITIMER_PROF -> SIGPROF, main thread of the worker process).

    CPU time rather than wall-clock time: an endless loop burns CPU and is caught, while a machine that is busy with
    other work cannot make a healthy load look like a hang.
    """

    def __init__(self, seconds):
        self.seconds = max(1.0, float(seconds))

    def __enter__(self):
        def handler(signum, frame):
            raise Timeout()

        self._old = signal.signal(signal.SIGPROF, handler)
        signal.setitimer(signal.ITIMER_PROF, self.seconds)

    def __exit__(self, *exc):
        signal.setitimer(signal.ITIMER_PROF, 0)
        signal.signal(signal.SIGPROF, self._old)
        return False


def line_truncations(text: str):
    """Every prefix ending at a line boundary (0 .. nlines-1 lines kept), plus the cut inside the last line."""
    lines = text.splitlines(keepends=True)
    for n in range(len(lines)):
        yield ("truncate-line", n), "".join(lines[:n])
    if lines and lines[-1].endswith("\n"):
        yield ("truncate-no-final-newline", len(lines)), text[:-1]


def byte_truncations(text: str, step=1):
    for n in range(0, len(text), step):
        yield ("truncate-byte", n), text[:n]


def line_edits(text: str):
    lines = text.splitlines(keepends=True)
    for i in range(len(lines)):
        yield ("delete-line", i), "".join(lines[:i] + lines[i + 1 :])
        yield ("duplicate-line", i), "".join(lines[: i + 1] + lines[i:])
        if i + 1 < len(lines):
            yield ("swap-lines", i), "".join(lines[:i] + [lines[i + 1], lines[i]] + lines[i + 2 :])


_tok = re.compile(r"\S+")


def token_substitutions(text: str, menu=TOKEN_MENU, max_tokens=None):
    """Replace every whitespace-separated token, one at a time, by each menu entry."""
    n = 0
    for m in _tok.finditer(text):
        if max_tokens is not None and n >= max_tokens:
            return
        n += 1
        tok = m.group(0)
        for rep in menu:
            if rep == "MULT1000":
                if not tok.isdigit():
                    continue
                new = str(int(tok) * 1000 + 7)
            elif rep == "SCALE":  # a real number replaced by another real number of the same printed width
                if tok.lstrip("+-").isdigit():
                    continue
                try:
                    val = float(tok.replace("D", "E").replace("d", "e"))
                except ValueError:
                    continue
                if val == 0.0 or val != val or abs(val) == float("inf"):
                    continue
                mant = tok.upper().replace("D", "E")
                if "E" in mant:
                    digits = len(mant.split("E")[0].split(".")[1]) if "." in mant.split("E")[0] else 0
                    new = f"{val * 1.5:.{digits}E}"
                    if "D" in tok.upper() and "E" not in tok.upper():
                        new = new.replace("E", "D")
                else:
                    digits = len(tok.split(".")[1]) if "." in tok else 0
                    new = f"{val * 1.5:.{digits}f}"
                new = new.rjust(len(tok))
            elif rep == "ZERO":  # a count of zero where a positive count stands
                if not tok.isdigit() or int(tok) == 0:
                    continue
                new = "0".rjust(len(tok))
            elif rep == "HUGEINT":  # an integer beyond 64 bits where an integer stands
                if not tok.isdigit():
                    continue
                new = "98765432109876543210"
            elif rep in ("DEC1", "INC1"):  # a counter that is off by one (same field width where possible)
                if not tok.isdigit() or (rep == "DEC1" and int(tok) == 0):
                    continue
                new = str(int(tok) + (1 if rep == "INC1" else -1)).rjust(len(tok))
            else:
                new = rep
            if new == tok:
                continue
            yield ("token", m.start(), rep), text[: m.start()] + new + text[m.end() :]


def numeric_field_substitutions(text: str, menu=("x", "1e", "-", "999999")):
    """Replace every numeric token by each of the menu entries (used for trajectory corruption)."""
    for m in _tok.finditer(text):
        tok = m.group(0)
        try:
            float(tok.replace("D", "E"))
        except ValueError:
            continue
        for rep in menu:
            yield ("numeric-field", m.start(), rep), text[: m.start()] + rep + text[m.end() :], m.start()


def _shape(line):
    out = []
    for tok in line.split():
        if tok.lstrip("+-").isdigit():
            out.append("i")
        else:
            try:
                float(tok.replace("D", "E").replace("d", "e"))
                out.append("f")
            except ValueError:
                out.append("w")
    return tuple(out)


def table_row_deletions(text: str, min_rows=2, max_tables=None):
    """A row missing from a table: for every maximal run of >= min_rows consecutive lines with the same token shape
    (ints / reals / words per column), delete the first, the middle and the last row (one at a time)."""
    lines = text.splitlines(keepends=True)
    shapes = [_shape(ln) for ln in lines]
    i, ntab = 0, 0
    while i < len(lines):
        j = i
        while j + 1 < len(lines) and shapes[j + 1] == shapes[i] and shapes[i]:
            j += 1
        n = j - i + 1
        if n >= min_rows and shapes[i]:
            ntab += 1
            if max_tables is not None and ntab > max_tables:
                return
            for r in sorted({i, i + n // 2, j}):
                yield ("delete-table-row", r), "".join(lines[:r] + lines[r + 1 :])
        i = j + 1
