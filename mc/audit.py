"""File-system audit: record every 'open' (and a few other) audit events while active."""

from __future__ import annotations

import sys

_installed = False
_active = None

EVENTS = {"open", "os.remove", "os.rename", "os.mkdir", "os.rmdir", "os.truncate", "os.chmod", "shutil.copyfile", "os.listdir", "os.scandir"}


def _hook(event, args):
    if _active is not None and event in EVENTS:
        try:
            _active.append((event, str(args[0]) if args else "", args[1] if len(args) > 1 else None))
        except Exception:  # noqa: BLE001
            pass


class Recorder:
    """with Recorder() as rec: ...;  rec.touched(path) -> list of events naming that path."""

    def __enter__(self):
        global _installed, _active
        if not _installed:
            sys.addaudithook(_hook)
            _installed = True
        self.events = []
        self._prev = _active
        _active = self.events
        return self

    def __exit__(self, *exc):
        global _active
        _active = self._prev

    def touched(self, path):
        path = str(path)
        return [e for e in self.events if e[1] == path]

    def opened_for_write(self, path):
        path = str(path)
        return [e for e in self.events if e[0] == "open" and e[1] == path and isinstance(e[2], str) and any(c in e[2] for c in "wax+")]
