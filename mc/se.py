"""SE - preemption-bounded exploration of real thread schedules (sys.settrace line events + semaphore baton).

Threads only run when they hold the baton.  A *scheduling point* is a 'line' (or 'call') event in one of the
selected code objects; at each point the scheduler decides which enabled thread runs next.  ``run(prefix)``
replays a choice prefix (an out-of-range choice is a hard error) and then always takes choice 0 = the canonical
first enabled thread (the running thread if still enabled, else lowest id).  ``explore`` enumerates every
schedule with at most ``bound`` preemptions (switching away from a runnable thread).
"""

from __future__ import annotations

import sys
import threading


class Divergence(Exception):
    pass


class Execution:
    def __init__(self):
        self.points = []   # list of dict(enabled=[ids], running=id or None, running_enabled=bool, where=str)
        self.choices = []  # index into enabled, per point
        self.results = {}
        self.errors = {}

    def preemptions_before(self, i):
        n = 0
        for p, c in zip(self.points[:i], self.choices[:i]):
            if p["running_enabled"] and p["enabled"][c] != p["running"]:
                n += 1
        return n

    @property
    def preemptions(self):
        return self.preemptions_before(len(self.points))

    def trace(self):
        return [f"{p['where']}->T{p['enabled'][c]}" for p, c in zip(self.points, self.choices)]


class Explorer:
    def __init__(self, make_bodies, is_point, bound=2, max_executions=None, visit_cap=None):
        """make_bodies() -> list of callables (fresh per execution); is_point(frame, event) -> bool.

        visit_cap: if set, only the first `visit_cap` visits of each (code object, line) by each thread are scheduling
        points (loops are unrolled that many times; later iterations run without a decision).  Executions are
        deterministic, so the numbering of the points is the same in every replay of a prefix."""
        self.make_bodies = make_bodies
        self.is_point = is_point
        self.bound = bound
        self.max_executions = max_executions
        self.visit_cap = visit_cap
        self.executions = 0
        self.capped = False

    # ---- one execution -------------------------------------------------------------------------------
    def run(self, prefix):
        bodies = self.make_bodies()
        n = len(bodies)
        x = Execution()
        sems = [threading.Semaphore(0) for _ in range(n)]
        done = [False] * n
        main_sem = threading.Semaphore(0)
        state = {"running": None, "step": 0, "failed": None}
        lock_owner = {"id": None}

        def decide(current):
            """Called by the thread holding the baton (or by the main thread at start/finish). Returns next thread id."""
            enabled = []
            if current is not None and not done[current]:
                enabled.append(current)
            enabled += [i for i in range(n) if not done[i] and i != current]
            if not enabled:
                return None
            i = len(x.points)
            if i < len(prefix):
                c = prefix[i]
                if c >= len(enabled):
                    state["failed"] = Divergence(f"choice {c} out of range at point {i} (enabled {enabled})")
                    c = 0
            else:
                c = 0
            x.points.append({"enabled": enabled, "running": current, "running_enabled": current is not None and not done[current], "where": state.get("where", "start")})
            x.choices.append(c)
            return enabled[c]

        def switch(me, nxt):
            if nxt == me:
                return
            if nxt is None:
                main_sem.release()
                return
            sems[nxt].release()
            if not done[me]:
                sems[me].acquire()

        def make_tracer(me):
            visits = {}
            cap = self.visit_cap

            def local(frame, event, arg):
                if event == "line" and self.is_point(frame, event):
                    if cap is not None:
                        key = (frame.f_code, frame.f_lineno)
                        k = visits.get(key, 0)
                        if k >= cap:
                            return local
                        visits[key] = k + 1
                    state["where"] = f"T{me}:{frame.f_code.co_name}:{frame.f_lineno}"
                    nxt = decide(me)
                    switch(me, nxt)
                return local

            def tracer(frame, event, arg):
                if event == "call":
                    # only trace into frames that can contain scheduling points (cheap filter by the predicate)
                    if self.is_point(frame, "call"):
                        return local
                    return None
                return None

            return tracer

        def worker(me):
            sems[me].acquire()
            sys.settrace(make_tracer(me))
            try:
                x.results[me] = bodies[me]()
            except BaseException as exc:  # noqa: BLE001
                x.errors[me] = exc
            finally:
                sys.settrace(None)
                done[me] = True
                state["where"] = f"T{me}:finished"
                nxt = decide(me)
                if nxt is None:
                    main_sem.release()
                else:
                    sems[nxt].release()

        threads = [threading.Thread(target=worker, args=(i,), daemon=True) for i in range(n)]
        for t in threads:
            t.start()
        first = decide(None)
        sems[first].release()
        main_sem.acquire()
        for t in threads:
            t.join(timeout=30)
        if state["failed"] is not None:
            raise state["failed"]
        self.executions += 1
        return x

    # ---- exploration ---------------------------------------------------------------------------------
    def explore(self, check, prefix=()):
        """Depth-first enumeration of all schedules with <= bound preemptions.  check(execution) is the oracle."""
        stack = [list(prefix)]
        while stack:
            pre = stack.pop()
            if self.max_executions is not None and self.executions >= self.max_executions:
                self.capped = True
                return
            x = self.run(pre)
            check(x)
            for i in range(len(pre), len(x.points)):
                p = x.points[i]
                cost = x.preemptions_before(i)
                for alt in range(1, len(p["enabled"])):
                    c = cost + (1 if p["running_enabled"] else 0)
                    if c > self.bound:
                        continue
                    stack.append(x.choices[:i] + [alt])
