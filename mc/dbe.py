"""DBE - deviation-bounded enumeration.

A space is an ordered list of axes ``(name, [v0, v1, ...])`` with ``v0`` the default.  ``cases(space, k)``
yields every assignment that departs from the default on at most ``k`` axes, in order of increasing
number of deviations and then lexicographically by menu position, so the first counterexample has
the fewest deviations.  ``k >= len(space)`` is the full Cartesian product.
"""

from __future__ import annotations

import itertools
import math


def count(space, k):
    sizes = [len(m) - 1 for _, m in space]
    total = 0
    for j in range(0, min(k, len(space)) + 1):
        for sub in itertools.combinations(sizes, j):
            total += math.prod(sub)
    return total


def cases(space, k):
    names = [n for n, _ in space]
    menus = [m for _, m in space]
    default = {n: m[0] for n, m in space}
    for j in range(0, min(k, len(space)) + 1):
        for axes in itertools.combinations(range(len(space)), j):
            for picks in itertools.product(*[range(1, len(menus[a])) for a in axes]):
                case = dict(default)
                for a, p in zip(axes, picks):
                    case[names[a]] = menus[a][p]
                yield case


def deviations(space, case):
    return tuple(sorted((n, repr(case[n])) for n, m in space if case[n] != m[0]))


def dev_str(space, case):
    d = deviations(space, case)
    return "default" if not d else ",".join(f"{n}={v}" for n, v in d)


def minimise(space, case, fails):
    """Drop deviations one at a time while ``fails(case)`` stays true (deterministic)."""
    default = {n: m[0] for n, m in space}
    cur = dict(case)
    changed = True
    while changed:
        changed = False
        for n, _ in space:
            if cur[n] != default[n]:
                trial = dict(cur)
                trial[n] = default[n]
                if fails(trial):
                    cur = trial
                    changed = True
    return cur
