"""Shared runner pieces: run context, verdict bookkeeping, evidence, known findings, replay files.

Every property module (props/cNN.py) exposes ``run(ctx)`` and optionally ``replay(ctx, payload)``.
``ctx`` is a :class:`Ctx`.  Nothing here imports iodata.
"""

from __future__ import annotations

import hashlib
import json
import os
import re
import shutil
import sys
import time
from pathlib import Path

VERIF = Path(__file__).resolve().parent.parent
REPO = Path(os.environ.get("VERIF_IODATA_ROOT", "/repo"))
OUT = Path(os.environ.get("VERIF_OUT", str(VERIF)))  # evidence/replays root (redirected for mutant self-tests)
CORPUS = REPO / "iodata" / "test" / "data"
LEVELS = ("exploration", "fault_enumeration", "model_checking")


def jsonable(obj, depth=0):
    """Best-effort conversion of a case description to something json.dump accepts."""
    import numpy as np

    if depth > 6:
        return repr(obj)[:200]
    if obj is None or isinstance(obj, (bool, int, str)):
        return obj
    if isinstance(obj, float):
        if obj != obj or obj in (float("inf"), float("-inf")):
            return repr(obj)
        return obj
    if isinstance(obj, (np.integer,)):
        return int(obj)
    if isinstance(obj, (np.floating,)):
        return jsonable(float(obj))
    if isinstance(obj, np.bool_):
        return bool(obj)
    if isinstance(obj, np.ndarray):
        if obj.size > 64:
            return f"ndarray{obj.shape}:{obj.dtype}"
        return jsonable(obj.tolist(), depth + 1)
    if isinstance(obj, dict):
        return {str(k): jsonable(v, depth + 1) for k, v in obj.items()}
    if isinstance(obj, (list, tuple, set, frozenset)):
        seq = list(obj)
        if isinstance(obj, (set, frozenset)):
            seq = sorted(seq, key=repr)
        return [jsonable(v, depth + 1) for v in seq]
    return repr(obj)[:300]


class Violation:
    """One failing case.  ``sig`` identifies the defect class for known-findings matching."""

    __slots__ = ("clause", "sig", "case", "detail")

    def __init__(self, clause: str, sig: str, case, detail: str):
        self.clause = clause
        self.sig = sig
        self.case = case
        self.detail = detail

    def as_dict(self):
        return {
            "clause": self.clause,
            "sig": self.sig,
            "case": jsonable(self.case),
            "detail": self.detail[:2000],
        }


class Ctx:
    """Run context handed to a property module."""

    def __init__(self, pid: str, tier: str, seed: int, level: str, nproc: int | None = None):
        assert level in LEVELS
        self.pid = pid
        self.tier = tier
        self.seed = seed
        self.level = level
        self.nproc = nproc or int(os.environ.get("VERIF_NPROC", os.cpu_count() or 4))
        self.t0 = time.time()
        self.evaluations = 0
        self.distinct: set = set()
        self.samples: list = []
        self.outcomes: dict[str, dict[str, int]] = {}
        self.violations: list[Violation] = []
        self.cov: dict = {}
        self.assumptions: list[str] = []
        self.rule = ""
        self.exhaustive = False
        self.notes: list[str] = []
        self._scratch = None

    # ---- bookkeeping -------------------------------------------------------------------------
    @property
    def thorough(self):
        return self.tier == "thorough"

    def count(self, n=1):
        self.evaluations += n

    def nontrivial(self, key):
        """Register one distinct non-trivial case (hashable key or anything repr-able)."""
        if not isinstance(key, (str, int, tuple, bytes)):
            key = repr(key)
        if not isinstance(key, (str, bytes)):
            key = repr(key)
        self.distinct.add(hashlib.blake2b(key.encode() if isinstance(key, str) else key, digest_size=8).digest())

    def sample(self, case, limit=6):
        if len(self.samples) < limit:
            self.samples.append(jsonable(case))

    def outcome(self, clause: str, label: str, n=1):
        d = self.outcomes.setdefault(clause, {})
        d[label] = d.get(label, 0) + n

    def violation(self, clause: str, sig: str, case, detail: str):
        self.violations.append(Violation(clause, sig, case, detail))

    def merge(self, part: dict):
        """Merge a worker's partial result (see :func:`part_result`)."""
        self.evaluations += part.get("evaluations", 0)
        for k in part.get("distinct", ()):
            self.distinct.add(k)
        for s in part.get("samples", ()):
            if len(self.samples) < 6:
                self.samples.append(s)
        for clause, d in part.get("outcomes", {}).items():
            for label, n in d.items():
                self.outcome(clause, label, n)
        for v in part.get("violations", ()):
            self.violations.append(Violation(v["clause"], v["sig"], v["case"], v["detail"]))
        for k, v in part.get("cov", {}).items():
            if isinstance(v, (int, float)) and not isinstance(v, bool):
                self.cov[k] = self.cov.get(k, 0) + v
            else:
                self.cov[k] = v

    # ---- scratch directory -------------------------------------------------------------------
    def scratch(self) -> Path:
        if self._scratch is None:
            self._scratch = make_scratch()
        return self._scratch

    def cleanup(self):
        if self._scratch is not None:
            shutil.rmtree(self._scratch, ignore_errors=True)
            self._scratch = None


def make_scratch() -> Path:
    base = Path("/dev/shm") if os.access("/dev/shm", os.W_OK) else VERIF / ".scratch"
    path = base / f"verif-{os.getpid()}-{int(time.time()*1000)%100000}"
    path.mkdir(parents=True, exist_ok=True)
    return path


class Part(Ctx):
    """Worker-side accumulator with the same recording API as Ctx."""

    def __init__(self, seed=0, tier="quick"):
        self.pid = ""
        self.tier = tier
        self.seed = seed
        self.evaluations = 0
        self.distinct = set()
        self.samples = []
        self.outcomes = {}
        self.violations = []
        self.cov = {}
        self._scratch = None

    def result(self) -> dict:
        return {
            "evaluations": self.evaluations,
            "distinct": list(self.distinct),
            "samples": self.samples,
            "outcomes": self.outcomes,
            "violations": [v.as_dict() for v in self.violations],
            "cov": self.cov,
        }


# ---- known findings ------------------------------------------------------------------------------

def load_findings(pid: str):
    path = VERIF / "known_findings.json"
    if not path.exists():
        return [], []
    doc = json.loads(path.read_text())
    known = [f for f in doc.get("findings", []) if f["property"] == pid]
    fixed = [f for f in doc.get("fixed", []) if f["property"] == pid]
    return known, fixed


def sig_file(sig: str) -> str:
    s = re.sub(r"[^A-Za-z0-9_.=+-]+", "_", sig)[:120]
    return s + "-" + hashlib.blake2b(sig.encode(), digest_size=4).hexdigest()


def finish(ctx: Ctx) -> int:
    """Write evidence + replay files, print verdict lines, return the exit code."""
    known, _fixed = load_findings(ctx.pid)
    known_sigs = {f["signature"]: f for f in known}
    by_sig: dict[str, list[Violation]] = {}
    for v in ctx.violations:
        by_sig.setdefault(v.sig, []).append(v)

    new = {s: vs for s, vs in by_sig.items() if s not in known_sigs}
    rc = 0
    for sig in sorted(by_sig):
        if sig in known_sigs:
            f = known_sigs[sig]
            print(f"KNOWN-FINDING: property={ctx.pid} {f['what']} [sig={sig}; {len(by_sig[sig])} case(s) this run]")
    replay_dir = OUT / "replays" / ctx.pid
    MAXF = 25
    for nsig, sig in enumerate(sorted(new, key=lambda s: (len(s), s))):
        vs = new[sig]
        if nsig >= MAXF:
            print(f"... and {len(new) - MAXF} more distinct violation signatures (no replay files written for those)")
            rc = 1
            break
        v = min(vs, key=lambda v: len(json.dumps(v.as_dict()["case"], sort_keys=True, default=repr)))
        replay_dir.mkdir(parents=True, exist_ok=True)
        path = replay_dir / (sig_file(sig) + ".json")
        path.write_text(
            json.dumps(
                {
                    "property": ctx.pid,
                    "signature": sig,
                    "clause": v.clause,
                    "seed": ctx.seed,
                    "tier": ctx.tier,
                    "case": jsonable(v.case),
                    "detail": v.detail[:4000],
                    "n_cases_with_this_signature": len(vs),
                    "replay": f"cd /verif && ./check {ctx.pid} --replay {path}",
                },
                indent=1,
                sort_keys=True,
                default=repr,
            )
        )
        print(f"VIOLATION property={ctx.pid} replay={path}")
        print(f"  clause={v.clause} sig={sig}\n  {v.detail[:600]}")
        rc = 1
    stale = [s for s in known_sigs if s not in by_sig and known_sigs[s].get("tiers", ["quick", "thorough"]).count(ctx.tier)]
    for s in stale:
        ctx.notes.append(f"listed known finding did not reproduce in this run: {s}")
        print(f"note: listed known finding not reproduced in this run: {s}")

    write_evidence(ctx, n_new=sum(len(v) for v in new.values()), n_known=sum(len(v) for s, v in by_sig.items() if s in known_sigs))
    ctx.cleanup()
    wall = time.time() - ctx.t0
    print(
        f"{ctx.pid} tier={ctx.tier} seed={ctx.seed} evaluations={ctx.evaluations} "
        f"distinct_nontrivial={len(ctx.distinct)} violations={sum(len(v) for v in new.values())} "
        f"known={sum(len(v) for s, v in by_sig.items() if s in known_sigs)} wall={wall:.1f}s"
    )
    return rc


def write_evidence(ctx: Ctx, n_new: int, n_known: int):
    cov = {
        "evaluations": int(ctx.evaluations),
        "distinct_nontrivial": len(ctx.distinct),
        "rule": ctx.rule,
        "samples": ctx.samples or [],
        "exhaustive": bool(ctx.exhaustive),
        "outcomes_per_clause": ctx.outcomes,
        "known_finding_cases": n_known,
        "notes": ctx.notes,
    }
    cov.update(jsonable(ctx.cov))
    doc = {
        "property_id": ctx.pid,
        "tier": ctx.tier,
        "seed": int(ctx.seed),
        "level": ctx.level,
        "coverage": cov,
        "assumptions": ctx.assumptions,
        "wall_s": round(time.time() - ctx.t0, 3),
        "violations": int(n_new),
    }
    problems = validate_evidence(doc)
    if problems:
        print("HARNESS-ERROR: evidence would not validate: " + "; ".join(problems), file=sys.stderr)
    out = OUT / "evidence"
    out.mkdir(parents=True, exist_ok=True)
    tmp = out / f".{ctx.pid}.json.tmp"
    tmp.write_text(json.dumps(doc, indent=1, sort_keys=True, default=repr) + "\n")
    tmp.replace(out / f"{ctx.pid}.json")
    return problems


def validate_evidence(doc) -> list[str]:
    """Hand-written mirror of the constraints in EVIDENCE.schema.json that matter (no jsonschema in /venv)."""
    p = []
    cov = doc["coverage"]
    lvl = doc["level"]
    generic_ok = (
        cov.get("evaluations", 0) >= 1
        and cov.get("distinct_nontrivial", 0) >= 2
        and isinstance(cov.get("rule"), str)
        and len(cov.get("samples", [])) >= 1
    )
    if lvl in ("exploration", "fault_enumeration"):
        if not generic_ok:
            p.append("generic coverage keys missing or too small")
    elif lvl == "model_checking":
        keys = ("states", "transitions", "traces_validated_against_impl", "samples")
        if all(k in cov for k in keys):
            if cov["states"] < 1 or cov["transitions"] < 1 or len(cov["samples"]) < 1:
                p.append("model_checking counts too small")
        elif not generic_ok:
            p.append("model_checking keys missing and generic fallback not satisfied")
    if doc["tier"] not in ("quick", "thorough"):
        p.append("tier")
    return p
