#!/bin/sh
# Offline setup: nothing to build (pure Python run by /venv/bin/python against /repo's working tree).
set -e
cd "$(dirname "$0")"
mkdir -p evidence replays
/venv/bin/python -c "import sys; sys.path.insert(0,'.'); from mc import pool; pool.assert_tree(); print('setup ok: iodata imported from /repo')"
