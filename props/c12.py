"""C12 - MolecularOrbitals / Shell keep derived quantities consistent (ESB + full products)."""

from __future__ import annotations

import itertools
import os

import numpy as np

from mc import esb

LEVEL = "model_checking"

SPIN_ACCESSORS = ("occsa", "occsb", "coeffsa", "coeffsb", "energiesa", "energiesb", "irrepsa", "irrepsb", "spinpol")


def occ_menu(n):
    """Occupation arrays of length n, simplest first: (label, array)."""
    if n == 0:
        return [("empty", np.zeros(0))]
    closed = np.array([2.0 if i < (n + 1) // 2 else 0.0 for i in range(n)])
    openp = np.array([2.0, 1.0, 1.0, 0.0, 0.0, 0.0][:n]) if n > 1 else np.array([1.0])
    frac = np.array([1.75, 1.25, 0.5, 0.25, 0.125, 0.0625][:n])
    near = np.array([2.0, 1.0 + 1e-10, 1.0 - 1e-10, 0.0, 0.0, 0.0][:n]) if n > 1 else np.array([1.0 - 1e-10])  # rounding noise around integers
    return [("closed", closed), ("open", openp), ("frac", frac), ("near-integer", near)]


def spin_menu(n):
    if n == 0:
        return [("empty", np.zeros(0))]
    return [
        ("ones", np.array([1.0 if i < (n + 1) // 2 else 0.0 for i in range(n)])),
        ("frac", np.array([0.75, 0.5, 0.25, 0.125, 0.0625, 0.0][:n])),
        ("zeros", np.zeros(n)),
        ("halves", np.full(n, 0.5)),  # alpha == beta == 0.5 sums to the integer occupation 1
    ]


def aminusb_menu(n):
    if n == 0:
        return [("empty", np.zeros(0))]
    return [
        ("pos", np.array([0.0, 1.0, 0.5, 0.0, 0.0, 0.0][:n]) if n > 1 else np.array([1.0])),
        ("neg", -np.array([0.25, 1.0, 0.5, 0.0, 0.0, 0.0][:n])),
    ]


def wrong_lengths(n):
    out = [n + 1]
    if n >= 2:
        out.append(1)  # broadcastable
    if n >= 1:
        out.append(n - 1)
    return out


def unres_occ_menu(na, nb):
    out = []
    for (la, a), (lb, b) in zip(spin_menu(na), spin_menu(nb)):
        out.append((f"{la}|{lb}", np.concatenate([a, b])))
    a, b = spin_menu(na)[0][1], spin_menu(nb)[-1][1]
    out.append(("ones|zeros", np.concatenate([a, b])))
    return out


def make(kind, na, nb, occs, aminusb, nbasis=2):
    from iodata.orbitals import MolecularOrbitals

    norb = na if kind == "restricted" else na + nb
    coeffs = np.arange(1.0, nbasis * norb + 1).reshape(nbasis, norb) * 0.5
    energies = np.arange(norb) * 0.25 - 1.0
    irreps = np.array([f"A{i}" for i in range(norb)])
    return MolecularOrbitals(kind, na, nb, occs=None if occs is None else occs.copy(), coeffs=coeffs, energies=energies, irreps=irreps,
                             occs_aminusb=None if aminusb is None else aminusb.copy())


def key(x):
    if x is None:
        return None
    x = np.asarray(x)
    return (str(x.dtype), x.shape, x.tobytes())


class St:
    __slots__ = ("mo", "start", "log")


def starts(max_norb):
    out = []
    for kind in ("restricted", "unrestricted"):
        for na in range(0, max_norb + 1):
            for nb in range(0, max_norb + 1):
                if kind == "restricted" and na != nb:
                    continue
                n = na if kind == "restricted" else na + nb
                menus = [None] + ([lab for lab, _ in occ_menu(n)] if kind == "restricted" else [lab for lab, _ in unres_occ_menu(na, nb)])
                for olab in menus:
                    ams = [None]
                    if kind == "restricted" and olab is not None:
                        ams += [lab for lab, _ in aminusb_menu(n)]
                    for alab in ams:
                        out.append(("start", (kind, na, nb, olab, alab)))
    return out


def lookup(menu, lab):
    for l, a in menu:
        if l == lab:
            return a
    raise KeyError(lab)


def build(hist):
    st = St()
    _, (kind, na, nb, olab, alab) = hist[0]
    n = na if kind == "restricted" else na + nb
    occs = None if olab is None else lookup(occ_menu(n) if kind == "restricted" else unres_occ_menu(na, nb), olab)
    am = None if alab is None else lookup(aminusb_menu(n), alab)
    st.mo = make(kind, na, nb, occs, am)
    st.start = (kind, na, nb)
    st.log = []
    for ev in hist[1:]:
        st.log.append(apply(st, ev))
    return st


def ev_value(st, ev):
    """Materialise the array named by an event for this state's orbital counts."""
    op, attr, lab = ev
    kind, na, nb = st.start
    n = na if kind == "restricted" else na + nb
    if lab is None:
        return None
    if isinstance(lab, tuple) and lab[0] == "len":
        return np.full(lab[1], 0.5)
    if attr == "occs":
        return lookup(occ_menu(n) if kind == "restricted" else unres_occ_menu(na, nb), lab).copy()
    if attr == "occs_aminusb":
        return lookup(aminusb_menu(n), lab).copy()
    if attr == "occsa":
        return lookup(spin_menu(na), lab).copy()
    if attr == "occsb":
        return lookup(spin_menu(nb), lab).copy()
    raise KeyError(ev)


def apply(st, ev):
    op, attr, lab = ev
    if op == "read":
        try:
            getattr(st.mo, attr)
        except Exception as exc:  # noqa: BLE001
            return ("raise", type(exc).__name__)
        return ("ok", None)
    val = ev_value(st, ev)
    try:
        setattr(st.mo, attr, val)
    except Exception as exc:  # noqa: BLE001
        return ("raise", type(exc).__name__)
    return ("ok", None)


def ops_of(st):
    kind, na, nb = st.start
    n = na if kind == "restricted" else na + nb
    ops = []
    menu = occ_menu(n) if kind == "restricted" else unres_occ_menu(na, nb)
    ops += [("set", "occs", lab) for lab, _ in menu] + [("set", "occs", None)] + [("set", "occs", ("len", m)) for m in wrong_lengths(n)]
    ops += [("set", "occs_aminusb", lab) for lab, _ in aminusb_menu(n)] + [("set", "occs_aminusb", None), ("set", "occs_aminusb", ("len", n + 1))]
    ops += [("set", "occsa", lab) for lab, _ in spin_menu(na)] + [("set", "occsa", ("len", m)) for m in wrong_lengths(na)]
    ops += [("set", "occsb", lab) for lab, _ in spin_menu(nb)] + [("set", "occsb", ("len", m)) for m in wrong_lengths(nb)]
    ops += [("read", a, None) for a in ("occsa", "occsb", "spinpol", "nelec")]
    return ops


def canon(st):
    mo = st.mo
    return (st.start, key(mo.occs), key(mo.occs_aminusb), key(mo.coeffs), key(mo.energies))


def observe(mo):
    out = {}
    for name in ("occs", "occs_aminusb", "nelec", "norb", "nbasis") + SPIN_ACCESSORS:
        try:
            v = getattr(mo, name)
            out[name] = None if v is None else np.array(v, copy=True)
        except Exception as exc:  # noqa: BLE001
            out[name] = exc
    return out


def hist_str(hist):
    parts = [f"MO{hist[0][1]}"]
    for op, attr, lab in hist[1:]:
        parts.append(f"read {attr}" if op == "read" else f"{attr}={lab}")
    return "; ".join(parts)


def aeq(a, b, tol=1e-12):
    if a is None or b is None:
        return a is None and b is None
    a, b = np.asarray(a, dtype=float), np.asarray(b, dtype=float)
    return a.shape == b.shape and bool(np.all(np.abs(a - b) <= tol))


def check_invariants(ctx, hist, mo, sigsuffix=""):
    """Invariants of a restricted/unrestricted object in any reachable state."""
    o = observe(mo)
    kind = mo.kind
    case = {"history": hist_str(hist), "hist": hist}
    bad = [n for n, v in o.items() if isinstance(v, Exception)]
    if bad:
        ctx.violation("accessor", f"accessor-raises:{kind}:{bad[0]}:{type(o[bad[0]]).__name__}", case, f"[{hist_str(hist)}]: reading {bad[0]} raised {o[bad[0]]!r}")
        return o
    na, nb = mo.norba, mo.norbb
    if o["occs"] is None:
        ok = all(o[n] is None for n in ("occsa", "occsb", "nelec", "spinpol"))
        ctx.outcome("inv-none", "all-none" if ok else "broken")
        if not ok:
            ctx.violation("inv", f"inv:{kind}:occs-None-but-derived-set", case, f"[{hist_str(hist)}]")
    else:
        checks = {
            "occsa+occsb==occs": (aeq(o["occsa"] + o["occsb"], o["occs"]) if kind == "restricted" else aeq(np.concatenate([o["occsa"], o["occsb"]]), o["occs"])) if len(o["occsa"]) == na and len(o["occsb"]) == nb else False,
            "nelec==total": aeq(o["nelec"], o["occsa"].sum() + o["occsb"].sum()) and aeq(o["nelec"], o["occs"].sum()),
            "spinpol==|a-b|": aeq(o["spinpol"], abs(o["occsa"].sum() - o["occsb"].sum())),
            "lengths": len(o["occsa"]) == na and len(o["occsb"]) == nb and len(o["occs"]) == mo.norb,
        }
        for lab, ok in checks.items():
            ctx.outcome("inv-" + lab, "holds" if ok else "broken")
            if not ok:
                extra = ""
                if lab == "spinpol==|a-b|" and mo.occs_aminusb is not None and aeq(o["spinpol"], o["occsa"].sum() - o["occsb"].sum()):
                    extra = ":signed-with-occs_aminusb"
                ctx.violation("inv", f"inv:{kind}:{lab}{extra}{sigsuffix}", case,
                              f"[{hist_str(hist)}]: occs={o['occs'].tolist()} occsa={o['occsa'].tolist()} occsb={o['occsb'].tolist()} nelec={o['nelec']} spinpol={o['spinpol']}")
    # views are the documented slices
    for base in ("coeffs", "energies", "irreps"):
        full = getattr(mo, base)
        a, b = getattr(mo, base + "a"), getattr(mo, base + "b")
        if full is None:
            ok = a is None and b is None
        elif kind == "restricted":
            ok = a is full and b is full
        elif base == "coeffs":
            ok = a.shape == (full.shape[0], na) and b.shape == (full.shape[0], nb) and (a == full[:, :na]).all() and (b == full[:, na:]).all() and np.shares_memory(a, full) == (a.size > 0) and np.shares_memory(b, full) == (b.size > 0)
        else:
            ok = len(a) == na and len(b) == nb and (a == full[:na]).all() and (b == full[na:]).all()
        ctx.outcome("views", "slices" if ok else "broken")
        if not ok:
            ctx.violation("views", f"views:{kind}:{base}", case, f"[{hist_str(hist)}]: {base}a/{base}b are not the documented slices")
    return o


class Oracle:
    def __init__(self, ctx):
        self.ctx = ctx
        self.obsvec = set()

    def on_state(self, hist, st):
        o = check_invariants(self.ctx, hist, st.mo)
        self.obsvec.add(repr([(k, None if v is None else (v.tolist() if isinstance(v, np.ndarray) else repr(v))) for k, v in o.items()]))
        self.ctx.nontrivial(repr(canon(st)))
        # reading twice gives the same
        o2 = observe(st.mo)
        for k in o:
            same = (o[k] is None and o2[k] is None) or (isinstance(o[k], np.ndarray) and isinstance(o2[k], np.ndarray) and o[k].shape == o2[k].shape and (o[k] == o2[k]).all())
            if not same:
                self.ctx.violation("idempotent", f"read-not-idempotent:{k}", {"history": hist_str(hist), "hist": hist}, f"[{hist_str(hist)}]: {k}")

    def on_transition(self, hist, ev, before, after):
        ctx = self.ctx
        op, attr, lab = ev
        full = hist + (ev,)
        case = {"history": hist_str(full), "hist": full}
        status, exc = after.log[-1]
        kind, na, nb = before.start
        n = na if kind == "restricted" else na + nb
        if op == "read":
            if status != "ok":
                ctx.violation("accessor", f"accessor-raises:{kind}:{attr}:{exc}", case, f"[{hist_str(full)}] raised {exc}")
            return
        o0 = observe(before.mo)
        o1 = observe(after.mo)
        wrong_len = isinstance(lab, tuple)
        expected_len = {"occs": n, "occs_aminusb": n, "occsa": na, "occsb": nb}[attr]
        if wrong_len and lab[1] == expected_len:
            wrong_len = False
        must_reject = wrong_len or (attr == "occs_aminusb" and kind != "restricted" and lab is not None)
        if status != "ok":
            ctx.outcome("assign", f"{attr}:rejected" + (":demanded" if must_reject else f":{exc}"))
            # a rejected assignment must still leave a consistent object (checked by on_state if new; check here anyway)
            check_invariants(ctx, full, after.mo, ":after-rejected-assignment")
            return
        if must_reject:
            ctx.outcome("assign", f"{attr}:ACCEPTED-WRONG-LENGTH")
            ctx.violation("reject", f"reject:{kind}:{attr}:wrong-length-accepted" + (":broadcast" if wrong_len and lab[1] == 1 else ""), case,
                          f"[{hist_str(full)}]: array of length {lab[1] if wrong_len else '?'} accepted where {expected_len} orbitals exist; reads back {None if isinstance(o1.get(attr), Exception) or o1.get(attr) is None else o1[attr].tolist()}")
            return
        ctx.outcome("assign", f"{attr}:ok")
        if attr in ("occsa", "occsb"):
            val = ev_value(before, ev)
            other = "occsb" if attr == "occsa" else "occsa"
            rb = aeq(o1[attr], val, 1e-12)
            if not rb:
                ctx.violation("readback", f"readback:{kind}:{attr}", case, f"[{hist_str(full)}]: assigned {val.tolist()}, reads {None if o1[attr] is None else o1[attr].tolist()}")
            if o0[other] is None:
                keep = o1[other] is None or aeq(o1[other], np.zeros(len(o1[other])))
            else:
                keep = aeq(o1[other], o0[other], 1e-12)
            if not keep:
                ctx.violation("other-spin", f"other-spin:{kind}:{attr}-changes-{other}", case, f"[{hist_str(full)}]: {other} changed from {None if o0[other] is None else o0[other].tolist()} to {None if o1[other] is None else o1[other].tolist()}")
            ctx.outcome("readback", "ok" if rb and keep else "broken")


def generalized_cases(ctx):
    from iodata.orbitals import MolecularOrbitals

    for norb in (0, 1, 2, 3):
        for with_occs in (False, True):
            ctx.count()
            occs = np.linspace(1.0, 0.0, norb) if with_occs else None
            coeffs = np.arange(4.0 * norb).reshape(4, norb)
            mo = MolecularOrbitals("generalized", None, None, occs=occs, coeffs=coeffs, energies=np.arange(norb) * 1.0)
            case = {"kind": "generalized", "norb": norb, "occs": with_occs}
            ctx.nontrivial(repr(case))
            ok = mo.norb == norb and mo.nbasis == 2 and ((mo.nelec is None) if occs is None else abs(mo.nelec - occs.sum()) < 1e-12)
            if not ok:
                ctx.violation("generalized", "generalized:combined-quantities", case, f"norb={mo.norb} nbasis={mo.nbasis} nelec={mo.nelec}")
            for name in SPIN_ACCESSORS:
                try:
                    v = getattr(mo, name)
                    ctx.violation("generalized", f"generalized:{name}-accessible", case, f"{name} returned {v!r}")
                except NotImplementedError:
                    ctx.outcome("generalized", "refused")
                except Exception as exc:  # noqa: BLE001
                    ctx.violation("generalized", f"generalized:{name}-raises-{type(exc).__name__}", case, repr(exc))
            for name in ("occsa", "occsb"):
                try:
                    setattr(mo, name, np.zeros(norb))
                    ctx.violation("generalized", f"generalized:{name}-assignable", case, "assignment accepted")
                except NotImplementedError:
                    ctx.outcome("generalized", "refused")
                except Exception as exc:  # noqa: BLE001
                    ctx.violation("generalized", f"generalized:{name}-set-raises-{type(exc).__name__}", case, repr(exc))


def ctor_worker(chunk, seed, tier):
    from iodata.orbitals import MolecularOrbitals
    from mc.core import Part

    part = Part(seed, tier)
    for kind, na, nb in chunk:
        if kind == "generalized":
            consistent_counts = na is None and nb is None
        elif kind == "restricted":
            consistent_counts = na is not None and nb is not None and na == nb
        else:
            consistent_counts = na is not None and nb is not None
        if consistent_counts:
            norb = 2 if kind == "generalized" else (na if kind == "restricted" else na + nb)
        else:
            norb = 2
        arrays = ("occs", "coeffs", "energies", "irreps", "occs_aminusb")
        # every array: absent / right length / one longer / one shorter -- all at the right length except (at most) two
        options = {a: ["absent", 0, +1] + ([-1] if norb > 0 else []) for a in arrays}
        combos = []
        for a in arrays:
            for o in options[a]:
                combos.append({a: o})
        for a, b in itertools.combinations(arrays, 2):
            for oa in options[a]:
                for ob in options[b]:
                    combos.append({a: oa, b: ob})
        combos.append({})
        for dev in combos:
            part.count()
            kw = {}
            spec = {a: dev.get(a, 0 if a != "occs_aminusb" else "absent") for a in arrays}
            for a, o in spec.items():
                if o == "absent":
                    continue
                m = norb + o
                if a == "coeffs":
                    kw[a] = np.ones((3 if kind != "generalized" else 4, m))
                elif a == "irreps":
                    kw[a] = np.array(["A"] * m)
                else:
                    kw[a] = np.zeros(m)
            case = {"kind": kind, "norba": na, "norbb": nb, "arrays": {a: (o if o == "absent" else norb + o) for a, o in spec.items()}}
            part.nontrivial(repr(case))
            lens = {a: norb + o for a, o in spec.items() if o != "absent"}
            if kind == "generalized":
                arrays_ok = len(set(lens.values())) <= 1
            else:
                arrays_ok = all(l == norb for l in lens.values())
            want = consistent_counts and arrays_ok and (kind == "restricted" or spec["occs_aminusb"] == "absent")
            try:
                MolecularOrbitals(kind, na, nb, **kw)
                got = True
                err = None
            except Exception as exc:  # noqa: BLE001
                got = False
                err = exc
            part.outcome("ctor", ("accepted" if got else "rejected") + ("" if got == want else "-WRONG"))
            if got != want:
                reason = "counts" if not consistent_counts else ("aminusb-kind" if arrays_ok else "array-length")
                part.violation("ctor", f"ctor:{kind}:" + ("accepts-inconsistent" if got else "rejects-consistent") + f":{reason}", case,
                               f"MolecularOrbitals({kind!r}, {na}, {nb}, lengths={case['arrays']}) " + ("accepted" if got else f"rejected with {err!r}"))
            if len(part.samples) < 1 and dev and kind == "unrestricted" and na == 1 and nb == 2:
                part.sample(case)
    return part.result()


def shell_worker(chunk, seed, tier):
    from iodata.basis import Shell
    from mc.core import Part

    part = Part(seed, tier)
    for combo, nexp in chunk:
        ncon = len(combo)
        angmoms = [l for l, _ in combo]
        kinds = [k for _, k in combo]
        base = dict(angmoms=angmoms, kinds=kinds, exponents=np.linspace(0.5, 2.0, nexp), coeffs=np.ones((nexp, ncon)))
        variants = [("consistent", base)]
        variants.append(("angmoms+1", {**base, "angmoms": angmoms + [0]}))
        variants.append(("kinds+1", {**base, "kinds": kinds + ["c"]}))
        variants.append(("exponents+1", {**base, "exponents": np.linspace(0.5, 2.0, nexp + 1)}))
        variants.append(("coeffs-col+1", {**base, "coeffs": np.ones((nexp, ncon + 1))}))
        variants.append(("coeffs-row+1", {**base, "coeffs": np.ones((nexp + 1, ncon))}))
        if ncon > 1:
            variants.append(("angmoms-1", {**base, "angmoms": angmoms[:-1]}))
            variants.append(("kinds-1", {**base, "kinds": kinds[:-1]}))
            variants.append(("coeffs-1d", {**base, "coeffs": np.ones(nexp)}))
        for vname, kw in variants:
            part.count()
            case = {"angmoms": angmoms, "kinds": kinds, "nexp": nexp, "variant": vname}
            part.nontrivial(repr(case))
            try:
                sh = Shell(0, kw["angmoms"], kw["kinds"], kw["exponents"], kw["coeffs"])
                built = True
            except Exception as exc:  # noqa: BLE001
                built = False
                err = exc
            want = vname == "consistent"
            part.outcome("shell-ctor", ("built" if built else "rejected") + ("" if built == want else "-WRONG"))
            if built != want:
                part.violation("shell", "shell:" + ("accepts-mismatch:" + vname if built else "rejects-consistent"), case,
                               f"Shell(angmoms={kw['angmoms']}, kinds={kw['kinds']}, nexp={len(kw['exponents'])}, coeffs{np.shape(kw['coeffs'])}) " + ("accepted" if built else f"rejected: {err!r}"))
                continue
            if not built:
                continue
            legal = all(k == "c" or (k == "p" and l >= 2) for l, k in combo)
            want_n = sum((l + 1) * (l + 2) // 2 if k == "c" else 2 * l + 1 for l, k in combo) if legal else None
            try:
                n = sh.nbasis
                if not legal:
                    part.violation("shell", "shell:nbasis-for-illegal-kind", case, f"nbasis={n} for {combo}")
                elif n != want_n:
                    part.violation("shell", "shell:nbasis-wrong", case, f"nbasis={n}, expected {want_n}")
                else:
                    part.outcome("shell-nbasis", "correct")
            except TypeError:
                if legal:
                    part.violation("shell", "shell:nbasis-raises-for-legal", case, f"{combo}")
                else:
                    part.outcome("shell-nbasis", "TypeError-for-illegal")
            except Exception as exc:  # noqa: BLE001
                part.violation("shell", f"shell:nbasis-raises-{type(exc).__name__}", case, repr(exc))
            if sh.ncon != ncon or sh.nexp != nexp:
                part.violation("shell", "shell:ncon/nexp", case, f"ncon={sh.ncon} nexp={sh.nexp}")
            if len(part.samples) < 1 and ncon == 3 and vname == "consistent":
                part.sample(case)
    return part.result()


def shell_histories(ctx):
    """Shell objects under assignment: nbasis/ncon/nexp must follow the current angmoms and kinds (read - assign - read)."""
    from iodata.basis import MolecularBasis, Shell

    types = [(0, "c"), (1, "c"), (2, "c"), (2, "p"), (3, "p"), (5, "c")]

    def count(combo):
        return sum((l + 1) * (l + 2) // 2 if k == "c" else 2 * l + 1 for l, k in combo)

    for ncon in (1, 2):
        for first in itertools.product(types, repeat=ncon):
            for second in itertools.product(types, repeat=ncon):
                if first == second:
                    continue
                for read_first in (False, True):
                    for how in ("assign-both", "assign-kinds-then-angmoms", "in-place"):
                        ctx.count()
                        sh = Shell(0, [l for l, _ in first], [k for _, k in first], [1.0, 2.0], np.ones((2, ncon)))
                        basis = MolecularBasis([sh], {}, "L2")
                        hist = [f"Shell{list(first)}"]
                        if read_first:
                            n0 = (sh.nbasis, basis.nbasis)
                            hist.append("read nbasis")
                            if n0 != (count(first), count(first)):
                                ctx.violation("shell", "shell:nbasis-wrong", {"history": hist}, f"{hist}: nbasis {n0}")
                        try:
                            if how == "in-place":
                                for i, (l, k) in enumerate(second):
                                    sh.angmoms[i] = l
                                    sh.kinds[i] = k
                            elif how == "assign-both":
                                sh.angmoms = [l for l, _ in second]
                                sh.kinds = [k for _, k in second]
                            else:
                                sh.kinds = [k for _, k in second]
                                sh.angmoms = [l for l, _ in second]
                        except Exception as exc:  # noqa: BLE001
                            ctx.outcome("shell-history", f"assignment-rejected-{type(exc).__name__}")
                            continue
                        hist.append(f"{how} -> {list(second)}")
                        ctx.nontrivial(repr(hist))
                        got = (sh.nbasis, basis.nbasis)
                        ok = got == (count(second), count(second))
                        ctx.outcome("shell-history", "follows-current-values" if ok else "STALE")
                        if not ok:
                            ctx.violation("shell", "shell:nbasis-stale-after-assignment" + (":after-read" if read_first else ""), {"history": hist},
                                          f"{hist}: nbasis reads {got}, angmoms/kinds now give {count(second)}")


def shell_assignments(ctx):
    """Every single shape mismatch assigned to every array attribute of a valid Shell must be rejected (and leave the
    shell usable); a correctly shaped replacement must be accepted."""
    from iodata.basis import Shell

    for ncon, nexp in itertools.product((1, 2, 3), (1, 2, 3)):
        def fresh():
            return Shell(0, [i % 3 for i in range(ncon)], ["c"] * ncon, np.arange(1.0, nexp + 1), np.ones((nexp, ncon)))

        variants = {
            "angmoms": [("same-shape", [1] * ncon, True), ("longer", [1] * (ncon + 1), False), ("shorter", [1] * (ncon - 1), False)],
            "kinds": [("same-shape", ["c"] * ncon, True), ("longer", ["c"] * (ncon + 1), False), ("shorter", ["c"] * (ncon - 1), False)],
            "exponents": [("same-shape", np.arange(2.0, nexp + 2), True), ("longer", np.arange(1.0, nexp + 2), False), ("shorter", np.arange(1.0, nexp), False)],
            "coeffs": [("same-shape", np.full((nexp, ncon), 0.5), True), ("more-columns", np.ones((nexp, ncon + 1)), False), ("fewer-columns", np.ones((nexp, ncon - 1)), False),
                       ("more-rows", np.ones((nexp + 1, ncon)), False), ("fewer-rows", np.ones((nexp - 1, ncon)), False), ("one-dimensional", np.ones(nexp * ncon), False),
                       ("transposed", np.ones((ncon, nexp)), nexp == ncon)],
        }
        for attr, menu in variants.items():
            for label, value, acceptable in menu:
                ctx.count()
                case = {"ncon": ncon, "nexp": nexp, "attribute": attr, "value": label}
                ctx.nontrivial(("shell-assign", ncon, nexp, attr, label))
                sh = fresh()
                try:
                    setattr(sh, attr, value)
                    err = None
                except Exception as exc:  # noqa: BLE001
                    err = exc
                if acceptable:
                    ctx.outcome("shell-assign", "accepted" if err is None else "REJECTED-VALID")
                    if err is not None:
                        ctx.violation("shell", f"shell:valid-{attr}-assignment-rejected", case, f"Shell(ncon={ncon}, nexp={nexp}).{attr} = {label}: {err!r}")
                    continue
                ctx.outcome("shell-assign", "rejected" if isinstance(err, TypeError) else "ACCEPTED-MISMATCH" if err is None else f"raises-{type(err).__name__}")
                if err is None:
                    ctx.violation("shell", f"shell:{attr}-shape-mismatch-accepted:{label}", case,
                                  f"Shell with {ncon} contractions and {nexp} primitives accepted {attr} of shape {np.shape(value)}; angmoms {len(sh.angmoms)}, kinds {len(sh.kinds)}, exponents {np.shape(sh.exponents)}, coeffs {np.shape(sh.coeffs)}")
                elif not isinstance(err, TypeError):
                    ctx.violation("shell", f"shell:{attr}-shape-mismatch-raises-{type(err).__name__}", case, repr(err))


def run(ctx):
    from mc.pool import pmap

    max_norb = 3 if ctx.thorough else 2
    depth = int(os.environ.get("C12_DEPTH", 5 if ctx.thorough else 3))
    oracle = Oracle(ctx)
    inits = [(s,) for s in starts(max_norb)]
    g = esb.bfs(inits, ops_of, build, canon, oracle.on_transition, depth, on_state=oracle.on_state)
    generalized_cases(ctx)
    shell_histories(ctx)
    shell_assignments(ctx)
    counts = [None, 0, 1, 2, 3] + ([5, 6] if ctx.thorough else [])
    pmap(ctx, ctor_worker, [(k, a, b) for k in ("restricted", "unrestricted", "generalized") for a in counts for b in counts], chunk=2)
    types = [(l, k) for l in (0, 1, 2, 5, 9) for k in ("c", "p", "x")]
    maxcon = 4 if ctx.thorough else 3
    combos = [(c, nexp) for n in range(1, maxcon + 1) for c in itertools.product(types, repeat=n) for nexp in (1, 3)]
    pmap(ctx, shell_worker, combos, chunk=256)
    ctx.evaluations += g.transitions + len(inits)
    ctx.cov.update(
        states=g.states, transitions=g.transitions, traces_validated_against_impl=g.transitions + len(inits), depth_completed=depth,
        fixpoint_reached=g.max_depth < depth, states_per_depth=g.depth_histogram, distinct_observation_vectors=len(oracle.obsvec),
        initial_objects=len(inits), max_norb=max_norb, shell_combinations=len(combos),
    )
    ctx.exhaustive = True
    ctx.rule = (
        f"ESB: all histories of <= {depth} assignments (occs/occs_aminusb/occsa/occsb from menus of right- and wrong-length arrays, None) and reads after every "
        f"restricted/unrestricted start object with norba,norbb <= {max_norb} x initial occupations {{None, closed, open, fractional, within 1e-10 of integers}} x occs_aminusb {{None,pos,neg}}; "
        f"constructor product kind x norba x norbb x (<=2 arrays absent/longer/shorter); shells: all sequences of <= {maxcon} contractions over l in {{0,1,2,5,9}} x kind in {{c,p,x}} x nexp {{1,3}} "
        "x every single shape mismatch, at construction and (ncon, nexp <= 3) on assignment to each array attribute. States hashed on (kind, counts, occs, occs_aminusb, coeffs, energies)."
    )
    ctx.assumptions += ["a failed assignment need only leave a consistent object (the statement does not demand it be unchanged for orbital objects)",
                        "an assignment that raises where the statement does not demand success (e.g. occsa on unrestricted orbitals without occs) is recorded, not judged"]
    for h in [w for w in g.witness.values() if len(w) == depth + 1][:3]:
        ctx.sample(hist_str(h))


def replay(ctx, payload):
    case = payload["case"]

    def tup(x):
        return tuple(tup(i) for i in x) if isinstance(x, list) else x

    if "hist" in case:
        hist = tup(case["hist"])
        oracle = Oracle(ctx)
        st = build(hist)
        if len(hist) > 1:
            oracle.on_transition(hist[:-1], hist[-1], build(hist[:-1]), st)
        oracle.on_state(hist, st)
    elif "variant" in case:
        res = shell_worker([(tuple(zip(case["angmoms"], case["kinds"])), case["nexp"])], 0, "quick")
        for v in res["violations"]:
            ctx.violation(v["clause"], v["sig"], v["case"], v["detail"])
    elif "norba" in case:
        res = ctor_worker([(case["kind"], case["norba"], case["norbb"])], 0, "quick")
        for v in res["violations"]:
            if v["sig"] == payload["signature"]:
                ctx.violation(v["clause"], v["sig"], v["case"], v["detail"])
    else:
        generalized_cases(ctx)
