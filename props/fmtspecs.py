"""Per-format object domains for the read/write formats: axes, builders and digits-aware comparison.

Used by C02 (save/reload), C15 (cycles), C09 (no mutation), C13 (trajectories), C08, C16, C18.
The comparison tables state, per format, which attributes the format stores and with how many
digits (typed from the format descriptions, see DESIGN.md appendix A), independent of the writers.
"""

from __future__ import annotations

import numpy as np

from ref import periodic, units

ANG = units.angstrom

# --------------------------------------------------------------------------------------------------
# molecules


def elements(kind, natom, seed):
    if kind == "OHH":
        base = [8, 1, 1]
        return np.array([base[i % 3] for i in range(natom)])
    if kind == "all-Z":
        return np.array([1 + (i + seed) % 118 for i in range(natom)])
    if kind == "two-letter":
        pool = [17, 35, 11, 20, 26, 29, 30, 2, 10, 118]
        return np.array([pool[(i + seed) % len(pool)] for i in range(natom)])
    if kind == "CHON":
        pool = [6, 1, 8, 7, 1, 1]
        return np.array([pool[(i * 5 + seed) % len(pool)] for i in range(natom)])
    raise KeyError(kind)


def coords_angstrom(kind, natom, seed, decimals=3):
    """Pairwise distinct coordinates in angstrom with at most `decimals` decimals."""
    i = np.arange(natom)
    q = 10.0**-decimals
    if kind == "small":
        x = 0.5 + (i % 17) * 0.211 + (i // 17) * 0.013
        y = 1.25 + ((i * 7 + seed) % 23) * 0.173 + (i // 23) * 0.017
        z = 0.75 + ((i * 3) % 29) * 0.131 + (i // 29) * 0.019
    elif kind == "negative":
        x = -(0.5 + (i % 17) * 0.211 + (i // 17) * 0.013)
        y = 1.25 + ((i * 7 + seed) % 23) * 0.173 * (-1) ** i + (i // 23) * 0.017
        z = -(0.75 + ((i * 3) % 29) * 0.131) - (i // 29) * 0.019
    elif kind == "wide":  # fills an 8.3f / 10.4f column: -999.999 .. 9999.999
        x = -999.0 + (i % 37) * 0.027 + (i // 37) * 0.001
        y = 9000.0 + ((i * 7 + seed) % 41) * 1.003 + (i // 41) * 0.001
        z = -100.0 - ((i * 3) % 43) * 2.011 - (i // 43) * 0.001
    elif kind == "tiny":
        x = (i + 1) * q
        y = -(i + 2) * q
        z = 0.0 * i
    else:
        raise KeyError(kind)
    xyz = np.stack([x, y, z], axis=1)
    return np.round(xyz / q) * q


def bonds_menu(kind, natom, types):
    """Bond arrays (0-based indices, type)."""
    if kind == "none" or natom < 2:
        return None
    if kind == "last-atoms":
        rows = [[natom - 2, natom - 1, types[0]]] + ([[natom - 3, natom - 1, types[-1]], [0, natom - 1, types[len(types) // 2]]] if natom > 2 else [])
        return np.array(rows, dtype=int)
    if kind == "reversed":  # the higher atom index first in some rows (a bond is an unordered pair; either order is legitimate)
        rows = [[natom - 1, 0, types[0]]] + ([[1, 0, types[-1]], [natom - 1, 1, types[len(types) // 2]], [1, 2, types[0]]] if natom > 2 else [])
        return np.array(rows, dtype=int)
    n = {"one": 1, "few": 3, "nine": 9, "ten": 10, "99": 99, "100": 100, "101": 101, "all-types": len(types), "hub": min(natom - 1, 9), "chain": natom - 1}[kind]
    rows = []
    if kind == "hub":
        rows = [[0, j + 1, types[j % len(types)]] for j in range(n)]
    else:
        k = 0
        i, j = 0, 1
        while len(rows) < n:
            rows.append([i, j, types[k % len(types)] if kind == "all-types" else types[(k * 3) % len(types)]])
            k += 1
            j += 1
            if j >= natom:
                i += 1
                j = i + 1
                if i >= natom - 1:
                    break
    return np.array(rows, dtype=int) if rows else None


# --------------------------------------------------------------------------------------------------
# comparison helpers


class Diff:
    def __init__(self):
        self.problems = []

    def add(self, clause, msg):
        self.problems.append((clause, msg))

    def exact(self, name, a, b):
        a_, b_ = np.asarray(a), np.asarray(b)
        if a_.shape != b_.shape or not bool(np.all(a_ == b_)):
            self.add(name, f"{name}: wrote {short(a)} read {short(b)}")

    def close(self, name, a, b, abs_tol=0.0, rel_tol=0.0):
        if b is None:
            self.add(name, f"{name}: wrote {short(a)} read None")
            return
        a_, b_ = np.asarray(a, dtype=float), np.asarray(b, dtype=float)
        if a_.shape != b_.shape:
            self.add(name, f"{name}: shape {a_.shape} -> {b_.shape}")
            return
        tol = abs_tol + rel_tol * np.abs(a_)
        bad = np.abs(a_ - b_) > tol
        if bad.any():
            idx = tuple(int(i) for i in np.argwhere(bad)[0])
            hint = perm_hint(a_, b_, tol)
            self.add(name, f"{name}{list(idx)}: wrote {a_[idx]!r} read {b_[idx]!r} (tol {float(np.asarray(tol)[idx] if np.ndim(tol) else tol):.1e}){hint}")


def perm_hint(a, b, tol):
    try:
        if a.ndim >= 1 and a.shape[0] > 1 and a.shape[0] <= 2000:
            sa = np.sort(a.reshape(a.shape[0], -1), axis=0)
            sb = np.sort(b.reshape(b.shape[0], -1), axis=0)
            if np.all(np.abs(sa - sb) <= np.max(tol) + 1e-300):
                return " [same values, different order]"
            if np.all(np.abs(np.abs(a) - np.abs(b)) <= tol):
                return " [sign flipped]"
    except Exception:  # noqa: BLE001
        pass
    return ""


def short(x):
    s = repr(np.asarray(x).tolist()) if not isinstance(x, str) else repr(x)
    return s if len(s) < 120 else s[:117] + "..."


# --------------------------------------------------------------------------------------------------
# format specs


class Spec:
    name = ""
    fname = ""  # file name used for dumping (selects the format)
    fmt = None  # explicit fmt= (json only)
    space: list = []
    max_natom = 12000

    def build(self, case, seed):
        """-> (IOData, dump_kwargs, load_kwargs)"""
        raise NotImplementedError

    def compare(self, orig, back, case, diff: Diff):
        raise NotImplementedError


def _title_axis():
    return ("title", [None, "water molecule", "T", "123 456", "title with  double  spaces & symbols #!$"])


class XYZ(Spec):
    name = "xyz"
    fname = "m.xyz"
    space = [
        ("natom", [3, 1, 9, 10, 99, 100, 1000, 12000]),
        ("elements", ["OHH", "all-Z", "two-letter"]),
        ("coords", ["small", "negative", "wide", "tiny"]),
        _title_axis(),
        ("atom_columns", ["default", "+charges", "+gradient", "+charges+gradient", "atnums-as-numbers", "+two-charges+extra"]),
    ]

    def columns(self, kind):
        from iodata.formats.xyz import DEFAULT_ATOM_COLUMNS

        if kind == "default":
            return None
        cols = list(DEFAULT_ATOM_COLUMNS)
        if kind == "atnums-as-numbers":
            cols[0] = ("atnums", None, (), int, (lambda w: int(w)), (lambda v: f"{int(v):3d}"))
            return cols
        if "charges" in kind:
            cols.append(("atcharges", "mulliken", (), float, (lambda w: float(w)), (lambda v: f"{v:12.6f}")))
        if kind == "+two-charges+extra":  # several columns taken from the same dictionary attribute under different keys
            cols.append(("atcharges", "esp", (), float, (lambda w: float(w)), (lambda v: f"{v:12.6f}")))
            cols.append(("extra", "tags", (), int, (lambda w: int(w)), (lambda v: f"{int(v):5d}")))
            cols.append(("extra", "weights", (2,), float, (lambda w: float(w)), (lambda v: f"{v:10.4f}")))
        if "gradient" in kind:
            cols.append(("atgradient", None, (3,), float, (lambda w: -float(w)), (lambda v: f"{-v:15.10f}")))
        return cols

    def build(self, case, seed):
        from iodata import IOData

        n = case["natom"]
        z = elements(case["elements"], n, seed)
        xyz = coords_angstrom(case["coords"], n, seed) * ANG
        kw = dict(atnums=z, atcoords=xyz)
        if case["title"] is not None:
            kw["title"] = case["title"]
        cols = self.columns(case["atom_columns"])
        if "charges" in case["atom_columns"]:
            kw["atcharges"] = {"mulliken": np.round(np.linspace(-0.9, 0.8, n) + 0.001 * np.arange(n) % 0.01, 6)}
        if "gradient" in case["atom_columns"]:
            kw["atgradient"] = np.round(np.arange(3.0 * n).reshape(n, 3) * 0.0123 - 1.5, 8)
        if case["atom_columns"] == "+two-charges+extra":
            kw["atcharges"]["esp"] = np.round(np.linspace(0.7, -0.6, n) - 0.002 * (np.arange(n) % 7), 6)
            kw["extra"] = {"tags": (np.arange(n) * 3 + 1) % 97, "weights": np.round(np.arange(2.0 * n).reshape(n, 2) * 0.25 + 0.125, 4)}
        k = {} if cols is None else {"atom_columns": cols}
        return IOData(**kw), k, dict(k)

    def compare(self, o, b, case, d):
        d.exact("atnums", o.atnums, b.atnums)
        d.close("atcoords", o.atcoords, b.atcoords, abs_tol=0.6e-10 * ANG)
        if o.title is not None:
            d.exact("title", o.title, b.title)
        if "charges" in case["atom_columns"]:
            d.close("atcharges[mulliken]", o.atcharges["mulliken"], b.atcharges.get("mulliken"), abs_tol=0.6e-6)
        if "gradient" in case["atom_columns"]:
            d.close("atgradient", o.atgradient, b.atgradient, abs_tol=0.6e-10)
        if case["atom_columns"] == "+two-charges+extra":
            d.close("atcharges[esp]", o.atcharges["esp"], b.atcharges.get("esp"), abs_tol=0.6e-6)
            d.exact("extra[tags]", o.extra["tags"], b.extra.get("tags"))
            d.close("extra[weights]", o.extra["weights"], b.extra.get("weights"), abs_tol=0.6e-4)


class SDF(Spec):
    name = "sdf"
    fname = "m.sdf"
    max_natom = 999
    TYPES = [1, 2, 3, 4, 5, 6, 7, 8]
    space = [
        ("natom", [3, 1, 9, 10, 99, 100, 101, 999]),
        ("elements", ["OHH", "all-Z", "two-letter"]),
        ("coords", ["small", "negative", "wide", "tiny"]),
        _title_axis(),
        ("bonds", ["last-atoms", "none", "one", "few", "nine", "ten", "99", "100", "101", "all-types", "hub", "chain", "empty-array", "reversed"]),
    ]

    def build(self, case, seed):
        from iodata import IOData

        n = case["natom"]
        kw = dict(atnums=elements(case["elements"], n, seed), atcoords=coords_angstrom(case["coords"], n, seed) * ANG)
        if case["title"] is not None:
            kw["title"] = case["title"]
        if case["bonds"] == "empty-array":
            kw["bonds"] = np.zeros((0, 3), dtype=int)
        else:
            bo = bonds_menu(case["bonds"], n, self.TYPES)
            if bo is not None:
                kw["bonds"] = bo
        return IOData(**kw), {}, {}

    def compare(self, o, b, case, d):
        d.exact("atnums", o.atnums, b.atnums)
        d.close("atcoords", o.atcoords, b.atcoords, abs_tol=0.6e-4 * ANG)
        if o.title is not None:
            d.exact("title", o.title, b.title)
        if o.bonds is not None and len(o.bonds):
            if b.bonds is None:
                d.add("bonds", "bonds: written, read None")
            else:
                d.exact("bonds", o.bonds, b.bonds)
        elif b.bonds is not None and len(b.bonds):
            d.add("bonds", f"bonds: none written, read {short(b.bonds)}")


class MOL2(Spec):
    name = "mol2"
    fname = "m.mol2"
    TYPES = [1, 2, 3, 4, 9, 10, 11, 8, 5, 6, 7]
    space = [
        ("natom", [3, 1, 9, 10, 99, 100, 1000, 9999, 10000, 12000]),
        ("elements", ["OHH", "all-Z", "two-letter"]),
        ("coords", ["small", "negative", "wide", "tiny"]),
        _title_axis(),
        ("bonds", ["last-atoms", "none", "one", "few", "ten", "100", "all-types", "hub", "chain", "reversed"]),
        ("charges", ["none", "mol2charges", "other-key-only"]),
        ("attypes", ["none", "given"]),
    ]

    def build(self, case, seed):
        from iodata import IOData

        n = case["natom"]
        kw = dict(atnums=elements(case["elements"], n, seed), atcoords=coords_angstrom(case["coords"], n, seed) * ANG)
        if case["title"] is not None:
            kw["title"] = case["title"]
        bo = bonds_menu(case["bonds"], n, self.TYPES)
        if bo is not None:
            kw["bonds"] = bo
        if case["charges"] == "mol2charges":
            kw["atcharges"] = {"mol2charges": np.round(np.linspace(-0.95, 0.85, n) + (np.arange(n) % 7) * 0.0011, 4)}
        elif case["charges"] == "other-key-only":
            kw["atcharges"] = {"mulliken": np.linspace(-0.5, 0.5, n)}
        if case["attypes"] == "given":
            pool = ["C.3", "O.2", "H", "N.am", "C.ar", "S.O2"]
            kw["atffparams"] = {"attypes": np.array([pool[(i + seed) % len(pool)] for i in range(n)])}
        return IOData(**kw), {}, {}

    def compare(self, o, b, case, d):
        d.exact("atnums", o.atnums, b.atnums)
        d.close("atcoords", o.atcoords, b.atcoords, abs_tol=0.6e-4 * ANG)
        if o.title is not None:
            d.exact("title", o.title, b.title)
        if case["charges"] == "mol2charges":
            d.close("atcharges[mol2charges]", o.atcharges["mol2charges"], b.atcharges.get("mol2charges"), abs_tol=0.6e-4)
        if case["attypes"] == "given":
            d.exact("atffparams[attypes]", list(o.atffparams["attypes"]), list(b.atffparams.get("attypes", [])))
        if o.bonds is not None:
            if b.bonds is None:
                d.add("bonds", "bonds: written, read None")
            else:
                d.exact("bonds", o.bonds, b.bonds)


class PDB(Spec):
    name = "pdb"
    fname = "m.pdb"
    space = [
        ("natom", [3, 1, 9, 10, 99, 100, 999, 1000, 9999, 10000, 12000]),
        ("elements", ["OHH", "all-Z", "two-letter"]),
        ("coords", ["small", "negative", "wide", "tiny"]),
        _title_axis(),
        ("bonds", ["last-atoms", "none", "one", "few", "ten", "hub", "chain", "reversed"]),
        ("atffparams", ["none", "attypes", "restypes+resnums", "all", "wide-resnums"]),
        ("extra", ["none", "occupancies+bfactors", "chainids", "compound", "compound-multiline", "compound-14-lines", "all", "bfactors-only", "occupancies-only"]),
    ]

    def build(self, case, seed):
        from iodata import IOData

        n = case["natom"]
        kw = dict(atnums=elements(case["elements"], n, seed), atcoords=coords_angstrom(case["coords"], n, seed) * ANG)
        if case["title"] is not None:
            kw["title"] = case["title"]
        bo = bonds_menu(case["bonds"], n, [8])
        if bo is not None:
            kw["bonds"] = bo
        ff = {}
        if case["atffparams"] in ("attypes", "all"):
            pool = ["CA", "N", "O", "HB2", "OXT", "C1'"]
            ff["attypes"] = np.array([pool[(i + seed) % len(pool)] for i in range(n)])
        if case["atffparams"] in ("restypes+resnums", "all"):
            pool = ["ALA", "GLY", "HOH", "TYR"]
            ff["restypes"] = np.array([pool[(i // 3 + seed) % len(pool)] for i in range(n)])
            ff["resnums"] = np.array([1 + (i // 3) % 9998 for i in range(n)])
        if case["atffparams"] == "wide-resnums":  # residue numbers that fill the four columns (>= 1000, <= -100)
            ff["resnums"] = np.array([[1000, -100, 9999, 999, 1001, -1, -99, -999, 998][i % 9] for i in range(n)])
        if ff:
            kw["atffparams"] = ff
        ex = {}
        if case["extra"] in ("occupancies+bfactors", "all", "occupancies-only"):
            ex["occupancies"] = np.round(0.25 + (np.arange(n) % 4) * 0.25, 2)
        if case["extra"] in ("occupancies+bfactors", "all", "bfactors-only"):
            ex["bfactors"] = np.round(10.0 + (np.arange(n) % 89) * 0.37, 2)
            ex["bfactors"][0] = 100.0  # values that fill the six columns: >= 100.00 and <= -10.00
            if n > 1:
                ex["bfactors"][-1] = -12.5
            if n > 2:
                ex["bfactors"][1] = 999.99
        if case["extra"] in ("chainids", "all"):
            ex["chainids"] = np.array(["ABC"[(i // 5) % 3] for i in range(n)])
        if case["extra"] in ("compound", "all"):
            ex["compound"] = "MOL_ID: 1;"
        if case["extra"] == "compound-multiline":
            ex["compound"] = "MOL_ID: 1;\nMOLECULE: WATER;\nCHAIN: A;"
        if case["extra"] == "compound-14-lines":  # continuation numbers 2..14 (two digits from the tenth line on)
            ex["compound"] = "\n".join(f"MOL_ID: {i // 3 + 1};" if i % 3 == 0 else f"MOLECULE: PART {i};" if i % 3 == 1 else f"CHAIN: {'ABCDE'[i // 3]};" for i in range(14))
        kw["extra"] = ex
        return IOData(**kw), {}, {}

    def compare(self, o, b, case, d):
        d.exact("atnums", o.atnums, b.atnums)
        d.close("atcoords", o.atcoords, b.atcoords, abs_tol=0.6e-3 * ANG)
        if o.title is not None:
            d.exact("title", o.title, b.title)
        for k in ("attypes", "restypes", "resnums"):
            if k in o.atffparams:
                d.exact(f"atffparams[{k}]", list(o.atffparams[k]), list(b.atffparams.get(k, [])))
        for k in ("occupancies", "bfactors"):
            if k in o.extra:
                d.close(f"extra[{k}]", o.extra[k], b.extra.get(k), abs_tol=0.6e-2)
        if "chainids" in o.extra:
            d.exact("extra[chainids]", list(o.extra["chainids"]), list(b.extra.get("chainids", [])))
        if "compound" in o.extra and o.title is not None:
            d.exact("extra[compound]", o.extra["compound"], b.extra.get("compound"))
        if o.bonds is not None:
            want = sorted({(int(min(i, j)), int(max(i, j))) for i, j, _ in o.bonds})
            got = None if b.bonds is None else sorted({(int(min(i, j)), int(max(i, j))) for i, j, _ in b.bonds})
            if want != got:
                d.add("bonds", f"bonds (pairs): wrote {short(want)} read {short(got)}")
        elif b.bonds is not None:
            d.add("bonds", f"bonds: none written, read {short(b.bonds)}")


class POSCAR(Spec):
    name = "poscar"
    fname = "POSCAR"
    space = [
        ("natom", [3, 1, 10, 100, 1000]),
        ("elements", ["OHH", "CHON", "two-letter", "all-Z"]),
        ("coords", ["small", "negative"]),
        _title_axis(),
        ("cell", ["cubic", "orthorhombic", "triclinic", "left-handed", "large"]),
    ]

    def cell(self, kind):
        if kind == "cubic":
            return np.eye(3) * 5.0 * ANG
        if kind == "orthorhombic":
            return np.diag([4.0, 5.5, 7.25]) * ANG
        if kind == "triclinic":
            return np.array([[4.0, 0.0, 0.0], [1.25, 5.0, 0.0], [-0.5, 0.75, 6.0]]) * ANG
        if kind == "left-handed":
            return np.array([[0.0, 5.0, 0.0], [4.0, 0.0, 0.0], [0.0, 0.0, 6.0]]) * ANG
        return np.array([[400.0, 0.0, 0.0], [0.0, 500.0, 25.0], [0.0, 0.0, 625.0]]) * ANG

    def build(self, case, seed):
        from iodata import IOData

        n = case["natom"]
        kw = dict(atnums=elements(case["elements"], n, seed), atcoords=coords_angstrom(case["coords"], n, seed) * ANG, cellvecs=self.cell(case["cell"]))
        if case["title"] is not None:
            kw["title"] = case["title"]
        return IOData(**kw), {}, {}

    def compare(self, o, b, case, d):
        order = np.argsort(-o.atnums, kind="stable")  # documented: grouped by element, heaviest first
        d.exact("atnums", o.atnums[order], b.atnums)
        scale = float(np.abs(o.cellvecs).max())
        d.close("cellvecs", o.cellvecs, b.cellvecs, abs_tol=1e-14 * scale)
        d.close("atcoords", o.atcoords[order], b.atcoords, abs_tol=1e-12 * max(scale, float(np.abs(o.atcoords).max())))
        if o.title is not None:
            d.exact("title", o.title, b.title)


class CUBE(Spec):
    name = "cube"
    fname = "m.cube"
    space = [
        ("natom", [3, 1, 10, 100]),
        ("elements", ["OHH", "all-Z", "two-letter"]),
        ("coords", ["small", "negative", "wide"]),
        _title_axis(),
        ("shape", [(2, 3, 7), (1, 1, 1), (3, 2, 6), (2, 2, 13), (1, 1, 5), (4, 1, 12), (2, 3, 1)]),
        ("values", ["small", "negative", "huge-tiny", "zeros"]),
        ("atcorenums", ["unset", "ecp", "same-as-atnums"]),
        ("grid", ["orthogonal", "skewed-negative-origin"]),
    ]

    def build(self, case, seed):
        from iodata import IOData
        from iodata.utils import Cube

        n = case["natom"]
        z = elements(case["elements"], n, seed)
        xyz = np.round(coords_angstrom(case["coords"], n, seed) * 1.5, 6)  # bohr with 6 decimals
        shape = tuple(case["shape"])
        m = int(np.prod(shape))
        idx = np.arange(m, dtype=float)
        if case["values"] == "small":
            vals = 0.001 * (idx + 1) + 0.5
        elif case["values"] == "negative":
            vals = (-1.0) ** idx * (0.25 + 0.001 * idx)
        elif case["values"] == "huge-tiny":
            vals = np.array([[1.5e30, -2.5e-30, 3.25e-100, -4.5e100, 1e-5, 12345.6][i % 6] * (1 + (i // 6) * 0.001) for i in range(m)])
        else:
            vals = np.zeros(m)
        if case["grid"] == "orthogonal":
            origin = np.array([0.0, 0.0, 0.0])
            axes = np.diag([0.25, 0.5, 0.125])
        else:
            origin = np.array([-1.5, 2.25, -0.125])
            axes = np.array([[0.25, 0.0625, 0.0], [-0.125, 0.5, 0.0], [0.0, 0.03125, -0.375]])
        kw = dict(atnums=z, atcoords=xyz, cube=Cube(origin=origin, axes=axes, data=vals.reshape(shape)))
        if case["atcorenums"] == "ecp":
            kw["atcorenums"] = np.maximum(z - 2.0, 1.0)
        elif case["atcorenums"] == "same-as-atnums":
            kw["atcorenums"] = z.astype(float)
        if case["title"] is not None:
            kw["title"] = case["title"]
        return IOData(**kw), {}, {}

    def compare(self, o, b, case, d):
        d.exact("atnums", o.atnums, b.atnums)
        d.close("atcoords", o.atcoords, b.atcoords, abs_tol=0.6e-6)
        d.close("atcorenums", o.atcorenums, b.atcorenums, abs_tol=0.6e-6)
        if o.title is not None:
            d.exact("title", o.title, b.title)
        if b.cube is None:
            d.add("cube", "cube: read None")
            return
        d.close("cube.origin", o.cube.origin, b.cube.origin, abs_tol=0.6e-6)
        d.close("cube.axes", o.cube.axes, b.cube.axes, abs_tol=0.6e-6)
        d.close("cube.data", o.cube.data, b.cube.data, rel_tol=0.6e-5, abs_tol=1e-300)


class FCIDUMP(Spec):
    name = "fcidump"
    fname = "m.FCIDUMP"
    space = [
        ("norb", [2, 1, 3, 4, 5]),
        ("nelec", [None, 2, 3, 2.0]),
        ("spinpol", [None, 0, 1, 1.0]),
        ("core_energy", [None, 1.5, -0.0625, 0.0]),
        ("values", ["dense", "sparse", "negative"]),
    ]

    def build(self, case, seed):
        from iodata import IOData

        n = case["norb"]
        one = np.zeros((n, n))
        for i in range(n):
            for j in range(i + 1):
                v = 0.5 + 0.0625 * i + 0.001953125 * j + 0.1 * ((seed + i) % 3)
                if case["values"] == "negative":
                    v = -v if (i + j) % 2 else v
                if case["values"] == "sparse" and (i + j) % 3 == 1:
                    v = 0.0
                one[i, j] = one[j, i] = v
        two = np.zeros((n, n, n, n))
        k = 0
        # chemists' (ij|kl) with i>=j, k>=l, ij>=kl -> physicists' <ik|jl>
        for i in range(n):
            for j in range(i + 1):
                for kk in range(n):
                    for l in range(kk + 1):
                        if i * (i + 1) // 2 + j >= kk * (kk + 1) // 2 + l:
                            k += 1
                            v = 0.03125 * k + 0.25
                            if case["values"] == "negative" and k % 2:
                                v = -v
                            if case["values"] == "sparse" and k % 3 == 0:
                                v = 0.0
                            for (a, b_, c, e) in ((i, j, kk, l), (j, i, kk, l), (i, j, l, kk), (j, i, l, kk), (kk, l, i, j), (l, kk, i, j), (kk, l, j, i), (l, kk, j, i)):
                                two[a, c, b_, e] = v
        kw = dict(one_ints={"core_mo": one}, two_ints={"two_mo": two})
        for f in ("nelec", "spinpol", "core_energy"):
            if case[f] is not None:
                kw[f] = case[f]
        return IOData(**kw), {}, {}

    def compare(self, o, b, case, d):
        d.close("one_ints[core_mo]", o.one_ints["core_mo"], b.one_ints.get("core_mo"), rel_tol=2e-16)
        d.close("two_ints[two_mo]", o.two_ints["two_mo"], b.two_ints.get("two_mo"), rel_tol=2e-16)
        if case["nelec"] is not None:
            d.close("nelec", o.nelec, b.nelec)
        if case["spinpol"] is not None:
            d.close("spinpol", o.spinpol, b.spinpol)
        if case["core_energy"] is not None:
            d.close("core_energy", o.core_energy, b.core_energy, rel_tol=2e-16)


SIMPLE = {s.name: s for s in (XYZ(), SDF(), MOL2(), PDB(), POSCAR(), CUBE(), FCIDUMP())}
