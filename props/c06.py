"""C06 - overlap matrices are the exact inner products (grid identity for the 1-D kernel, tables, DBE over shells)."""

from __future__ import annotations

import itertools
import math

import numpy as np

from mc import dbe
from props import common
from ref import gto

LEVEL = "exploration"

EXPONENTS = [0.75, 0.01, 0.25, 1.5, 4.0, 12.5, 130.0, 1.0e5]


# ---- layer 1: the 1-D kernel on a full grid ---------------------------------------------------------

GRID_X = [-1.75, -0.9, -0.3, 0.0, 0.2, 0.65, 1.1, 1.6, 2.3]
GRID_T = [0.02, 0.11, 0.5, 1.0, 2.6, 7.0, 31.0, 260.0, 2.0e5]


def kernel_worker(chunk, seed, tier):
    from iodata.overlap import GaussianOverlap
    from mc.core import Part

    part = Part(seed, tier)
    go = GaussianOverlap(7)
    t, w = np.polynomial.hermite.hermgauss(30)
    for n1, n2 in chunk:
        worst = 0.0
        for two_at in GRID_T:
            p = two_at / 2
            x = t / math.sqrt(p)
            for x1 in GRID_X:
                pa = (x + x1) ** n1
                for x2 in GRID_X:
                    part.count()
                    want = float((w * pa * (x + x2) ** n2).sum() / math.sqrt(math.pi))
                    got = float(go.compute_overlap_gaussian_1d(x1, x2, n1, n2, two_at))
                    scale = float((w * np.abs(pa * (x + x2) ** n2)).sum() / math.sqrt(math.pi))
                    err = abs(got - want) / max(scale, 1e-300)
                    worst = max(worst, err)
                    if err > 1e-11:
                        part.violation("kernel-1d", f"kernel:n1={n1},n2={n2}", {"n1": n1, "n2": n2, "x1": x1, "x2": x2, "two_at": two_at},
                                       f"1-D overlap kernel ({n1},{n2}) at x1={x1}, x2={x2}, two_at={two_at}: {got!r} vs quadrature {want!r}")
        part.nontrivial(("kernel", n1, n2))
        part.outcome("kernel-1d", "identity-on-9x9x9-grid" if worst <= 1e-11 else "WRONG")
        if (n1, n2) == (3, 2):
            part.sample({"kernel": [n1, n2], "grid": "9x9x9", "max_rel_err": worst})
    return part.result()


# ---- layer 2: tables ---------------------------------------------------------------------------------

def tables(ctx):
    from iodata.overlap import gob_cart_normalization
    from iodata.overlap_cartpure import tfs

    h = common.horton2_labels(7)
    for l in range(2, 8):
        want = gto.cart_to_pure_table(l, h[(l, "p")], h[(l, "c")])
        got = np.asarray(tfs[l])
        ctx.count(want.size)
        ctx.nontrivial(("tfs", l))
        ok = got.shape == want.shape and np.abs(got - want).max() <= 1e-14
        ctx.outcome("cartpure-table", "exact" if ok else "WRONG")
        if not ok:
            idx = np.unravel_index(np.abs(got - want).argmax(), want.shape) if got.shape == want.shape else None
            ctx.violation("cartpure-table", f"tfs:l={l}", {"l": l, "index": idx}, f"tfs[{l}]{idx}: {None if idx is None else got[idx]!r} vs {None if idx is None else want[idx]!r}")
    for l in range(0, 8):
        for n in gto.cart_powers(l):
            for alpha in EXPONENTS:
                ctx.count()
                got = float(gob_cart_normalization(alpha, np.array(n)))
                want = gto.cart_norm(alpha, *n)
                if abs(got - want) > 1e-13 * want:
                    ctx.violation("cart-norm", f"norm:n={n}", {"n": n, "alpha": alpha}, f"gob_cart_normalization({alpha}, {n}) = {got!r}, docs formula {want!r}")
                else:
                    ctx.outcome("cart-norm", "exact")
        ctx.nontrivial(("norm", l))


# ---- layer 3: compute_overlap ------------------------------------------------------------------------

def shell_types(lmax):
    return [(l, "c") for l in range(lmax + 1)] + [(l, "p") for l in range(2, lmax + 1)]


SPACE = [
    ("geometry", ["apart", "coincident", "axis-aligned", "weak-1e-8", "just-above-threshold", "just-below-threshold", "far", "moderate-3", "moderate-10"]),
    ("contraction", ["1prim", "2prim", "6prim", "gen-same", "gen-mixed", "2prim-increasing", "6prim-unsorted"]),
    ("conventions", ["horton2", "fchk", "molden", "wfn", "cca", "scr1", "scr2"]),
    ("mode", ["two-bases", "one-basis", "one-basis-5-centers", "same-object-twice", "two-bases-same-index"]),
    ("exponents", [0, 1, 2, 3]),
]


def build_shell(icenter, ltype, contraction, expset, which, seed):
    from iodata.basis import Shell

    l, kind = ltype
    rot = (expset + which * 3 + seed) % len(EXPONENTS)
    pool = EXPONENTS[rot:] + EXPONENTS[:rot]
    if contraction == "1prim":
        return Shell(icenter, [l], [kind], [pool[0]], [[1.0]])
    if contraction == "2prim":
        return Shell(icenter, [l], [kind], pool[:2], [[0.6], [0.5]])
    if contraction == "2prim-increasing":  # the most diffuse primitive first (any order is legitimate)
        return Shell(icenter, [l], [kind], sorted(pool[:2]), [[0.6], [0.5]])
    if contraction == "6prim-unsorted":
        ex = sorted(set(pool[:6]))
        ex = [ex[i] for i in (2, 0, 4, 1, 5, 3)][: len(ex)]
        return Shell(icenter, [l], [kind], ex, [[0.1 * (i + 1) * (-1) ** (i == 3)] for i in range(len(ex))])
    if contraction == "6prim":
        ex = sorted(set(pool[:6]))
        return Shell(icenter, [l], [kind], ex, [[0.1 * (i + 1) * (-1) ** (i == 3)] for i in range(len(ex))])
    if contraction == "gen-same":
        return Shell(icenter, [l, l], [kind, kind], pool[:2], [[0.7, -0.2], [0.4, 0.9]])
    # generalized, mixing angular momenta and kinds
    l2 = max(0, l - 1) if l else 1
    k2 = "p" if l2 >= 2 and kind == "c" else "c"
    return Shell(icenter, [l, l2, 0], [kind, k2, "c"], pool[:3], [[0.7, -0.2, 0.3], [0.4, 0.9, 0.1], [0.2, 0.3, 0.8]])


def geometry(name, a0=None, a1=None):
    """Two centres.  The three screening geometries place them so that the *largest* Gaussian prefactor
    exp(-a0 a1/(a0+a1) R^2) (smallest exponents a0, a1 of the two shells) is 1e-8, 3e-15 or 3e-16."""
    target = {"weak-1e-8": 1e-8, "just-above-threshold": 3e-15, "just-below-threshold": 3e-16}.get(name)
    if target is not None:
        r = math.sqrt(-math.log(target) * (a0 + a1) / (a0 * a1))
        return np.array([[0.1, -0.2, 0.3], [0.1 + 0.48 * r, -0.2 + 0.6 * r, 0.3 + 0.64 * r]])
    if name == "coincident":
        return np.array([[0.1, -0.2, 0.3], [0.1, -0.2, 0.3]])
    if name == "apart":
        return np.array([[0.1, -0.2, 0.3], [0.5, 0.2, -0.1]])  # |d| = 0.69
    if name == "axis-aligned":
        return np.array([[0.0, 0.0, 0.0], [0.0, 0.0, 1.1]])
    if name.startswith("moderate-"):  # diffuse primitives still overlap strongly, tight ones do not
        r = float(name.split("-")[1])
        return np.array([[0.1, -0.2, 0.3], [0.1 + 0.48 * r, -0.2 + 0.6 * r, 0.3 + 0.64 * r]])
    return np.array([[0.1, -0.2, 0.3], [60.1, 40.0, -35.0]])


def overlap_worker(chunk, seed, tier):
    from iodata.basis import MolecularBasis
    from iodata.overlap import compute_overlap
    from mc.core import Part

    part = Part(seed, tier)
    tabs = common.convention_tables(9)
    for t0, t1, case in chunk:
        part.count()
        conv = tabs[case["conventions"]]
        s0 = build_shell(0, t0, case["contraction"], case["exponents"], 0, seed)
        s1 = build_shell(1, t1, case["contraction"] if case["contraction"] != "gen-mixed" else "2prim", case["exponents"], 1, seed)
        xyz = geometry(case["geometry"], float(np.min(s0.exponents)), float(np.min(s1.exponents)))
        desc = {"shell0": list(t0), "shell1": list(t1), **case}
        devs = dbe.dev_str(SPACE, case)
        part.nontrivial(repr((t0, t1, devs)))
        if len(part.samples) < 1 and t0 == (2, "p"):
            part.sample(desc)
        try:
            if case["mode"] == "two-bases":
                b0 = MolecularBasis([s0], conv, "L2")
                conv1 = tabs["fchk" if case["conventions"] == "horton2" else "horton2"] if case["conventions"] in ("horton2", "scr1") else conv
                b1 = MolecularBasis([s1], conv1, "L2")
                c0, c1 = xyz[:1], np.vstack([xyz[:1] * 0 + 9.0, xyz[1:]])  # second geometry has a dummy first centre
                s1b = build_shell(1, t1, case["contraction"] if case["contraction"] != "gen-mixed" else "2prim", case["exponents"], 1, seed)
                got = compute_overlap(b0, c0, b1, c1)
                want, slack = gto.overlap(common.plain(b0), conv, c0, common.plain(b1), conv1, c1, screen=1e-15)
                swapped = compute_overlap(b1, c1, b0, c0)
                shifted = compute_overlap(b0, c0 + np.array([0.37, -1.21, 0.55]), b1, c1 + np.array([0.37, -1.21, 0.55]))
            elif case["mode"] == "two-bases-same-index":
                # both shells carry centre index 0, each in its own geometry: equal indices do not mean equal positions
                from iodata.basis import Shell

                s1z = Shell(0, list(s1.angmoms), list(s1.kinds), np.array(s1.exponents), np.array(s1.coeffs))
                b0 = MolecularBasis([s0], conv, "L2")
                b1 = MolecularBasis([s1z], conv, "L2")
                c0, c1 = xyz[:1], xyz[1:]
                got = compute_overlap(b0, c0, b1, c1)
                want, slack = gto.overlap(common.plain(b0), conv, c0, common.plain(b1), conv, c1, screen=1e-15)
                swapped = compute_overlap(b1, c1, b0, c0)
                shifted = compute_overlap(b0, c0 + np.array([0.37, -1.21, 0.55]), b1, c1 + np.array([0.37, -1.21, 0.55]))
            elif case["mode"] == "same-object-twice":
                # the very same basis object for both arguments, evaluated at two different geometries
                from iodata.basis import Shell

                s1c = Shell(1, list(s1.angmoms), list(s1.kinds), np.array(s1.exponents), np.array(s1.coeffs))
                b0 = MolecularBasis([s0, s1c], conv, "L2")
                c0 = xyz
                c1 = xyz[::-1] * np.array([1.0, -0.5, 1.25]) + np.array([0.3, 0.1, -0.2])  # not a rigid motion of c0
                got = compute_overlap(b0, c0, b0, c1)
                want, slack = gto.overlap(common.plain(b0), conv, c0, common.plain(b0), conv, c1, screen=1e-15)
                swapped = compute_overlap(b0, c1, b0, c0)
                shifted = compute_overlap(b0, c0 + np.array([0.37, -1.21, 0.55]), b0, c1 + np.array([0.37, -1.21, 0.55]))
            else:
                shells = [s0, s1]
                coords = xyz
                if case["mode"] == "one-basis-5-centers":
                    from iodata.basis import Shell

                    coords = np.vstack([xyz, [[-1.3, 0.4, 0.9], [0.8, -1.1, -0.7], [2.0, 2.0, 0.1]]])
                    shells = [s0, Shell(2, [1], ["c"], [0.9], [[1.0]]), s1, Shell(3, [0], ["c"], [2.2], [[1.0]]), Shell(4, [2], ["p"], [0.6], [[1.0]]), Shell(0, [0], ["c"], [5.5], [[1.0]])]
                b0 = MolecularBasis(shells, conv, "L2")
                got = compute_overlap(b0, coords)
                want, slack = gto.overlap(common.plain(b0), conv, coords, screen=1e-15)
                swapped = got.T
                shifted = compute_overlap(b0, coords + np.array([0.37, -1.21, 0.55]))
        except Exception as exc:  # noqa: BLE001
            part.violation("overlap", f"overlap:raises-{type(exc).__name__}:{t0}x{t1}:{devs}", desc, f"compute_overlap raised {exc!r}")
            continue
        scale = np.sqrt(np.abs(np.outer(np.ones(want.shape[0]), np.ones(want.shape[1]))))
        if np.shape(got) != want.shape:
            part.outcome("overlap-value", "WRONG-SHAPE")
            part.violation("overlap", f"overlap:shape:{t0}x{t1}:{devs}", desc, f"matrix of shape {np.shape(got)} for {want.shape[0]} x {want.shape[1]} basis functions; shells {t0} x {t1}; {devs}")
            continue
        tol = 1e-12 + 1e-10 * np.abs(want) + 1.000001 * slack + 1e-14
        err = np.abs(got - want)
        ok = got.shape == want.shape and bool((err <= tol).all())
        part.outcome("overlap-value", ("screened-block" if (slack > 0).any() else "full") + ("-ok" if ok else "-WRONG"))
        if not ok:
            i = np.unravel_index((err - tol).argmax(), err.shape)
            part.violation("overlap", f"overlap:value:{t0}x{t1}:{devs}", desc, f"element {i}: got {got[i]!r}, reference {want[i]!r} (tol {tol[i]:.2e}); shells {t0} x {t1}; {devs}")
            continue
        if case["mode"] not in ("two-bases", "same-object-twice", "two-bases-same-index"):
            sym = np.abs(got - got.T).max() <= 1e-13 + 2 * slack.max()
            lam = np.linalg.eigvalsh((got + got.T) / 2).min()
            psd = lam >= -1e-10 - slack.sum()
            part.outcome("overlap-sym-psd", "ok" if sym and psd else "WRONG")
            if not sym:
                part.violation("overlap", f"overlap:not-symmetric:{t0}x{t1}:{devs}", desc, "single-basis overlap is not symmetric")
            if not psd:
                part.violation("overlap", f"overlap:not-psd:{t0}x{t1}:{devs}", desc, f"lowest eigenvalue {lam!r}")
        else:
            tr = np.abs(swapped - got.T).max() <= 1e-13 + 2 * slack.max()
            part.outcome("overlap-swap", "transpose" if tr else "WRONG")
            if not tr:
                part.violation("overlap", f"overlap:swap!=transpose:{t0}x{t1}:{devs}", desc, "exchanging the two bases does not transpose the matrix")
        shift_ok = bool((np.abs(shifted - got) <= 1e-11 + 1e-9 * np.abs(want) + 2 * slack).all())
        part.outcome("overlap-translation", "invariant" if shift_ok else "WRONG")
        if not shift_ok:
            part.violation("overlap", f"overlap:translation:{t0}x{t1}:{devs}", desc, f"max change under rigid translation {np.abs(shifted - got).max():.3e}")
    return part.result()


def rejections(ctx):
    from iodata.basis import MolecularBasis, Shell
    from iodata.overlap import compute_overlap

    conv = common.horton2_labels(3)
    sh = [Shell(0, [1], ["c"], [0.9], [[1.0]])]
    xyz = np.zeros((1, 3))
    tests = [
        ("L1-first", lambda: compute_overlap(MolecularBasis(sh, conv, "L1"), xyz), ValueError),
        ("L1-second", lambda: compute_overlap(MolecularBasis(sh, conv, "L2"), xyz, MolecularBasis(sh, conv, "L1"), xyz), ValueError),
        ("second-basis-without-coords", lambda: compute_overlap(MolecularBasis(sh, conv, "L2"), xyz, MolecularBasis(sh, conv, "L2"), None), TypeError),
        ("coords-without-second-basis", lambda: compute_overlap(MolecularBasis(sh, conv, "L2"), xyz, None, xyz), TypeError),
    ]
    for name, fn, exc_type in tests:
        ctx.count()
        ctx.nontrivial(("reject", name))
        try:
            fn()
            ctx.violation("reject", f"reject:{name}-accepted", {"case": name}, "no exception")
        except exc_type:
            ctx.outcome("reject", "rejected")
        except Exception as exc:  # noqa: BLE001
            ctx.violation("reject", f"reject:{name}-raises-{type(exc).__name__}", {"case": name}, repr(exc))


def run(ctx):
    from mc.pool import pmap

    pmap(ctx, kernel_worker, list(itertools.product(range(8), repeat=2)), chunk=1)
    tables(ctx)
    rejections(ctx)
    lmax = 7 if ctx.thorough else 4
    k = 2 if ctx.thorough else 1
    types = shell_types(lmax)
    cases = list(dbe.cases(SPACE, k))
    jobs = []
    for t0, t1 in itertools.product(types, repeat=2):
        heavy = max(t0[0], t1[0]) >= 6
        for case in cases:
            if heavy and (case["contraction"] in ("6prim",) or case["mode"] == "one-basis-5-centers") and len(dbe.deviations(SPACE, case)) > 1:
                continue  # l>=6 with 36 primitive pairs only as single deviations (cap reported)
            jobs.append((t0, t1, case))
    # primitive order x distance always as a full product: the screening must use the most diffuse primitive wherever it is listed
    default = {n: m[0] for n, m in SPACE}
    seen = {repr((t0, t1, sorted(c.items()))) for t0, t1, c in jobs}
    for t0, t1 in itertools.product(types, repeat=2):
        if max(t0[0], t1[0]) >= 6:
            continue
        for geo in ("moderate-3", "moderate-10"):
            for con in ("2prim", "2prim-increasing", "6prim", "6prim-unsorted"):
                case = dict(default, geometry=geo, contraction=con)
                if repr((t0, t1, sorted(case.items()))) not in seen:
                    jobs.append((t0, t1, case))
    # heavy jobs first for load balance
    jobs.sort(key=lambda j: -(j[0][0] + 1) ** 2 * (j[1][0] + 1) ** 2)
    pmap(ctx, overlap_worker, jobs, chunk=4 if ctx.thorough else 8)
    ctx.cov.update(shell_type_pairs=len(types) ** 2, dbe_k=k, lmax=lmax, dbe_cases_per_pair=len(cases), overlap_jobs=len(jobs))
    ctx.exhaustive = True
    ctx.rule = (
        f"(1) 1-D kernel: all 64 (n1,n2)<=7 on the full 9x9x9 grid of (x1,x2,two_at) against Gauss-Hermite quadrature; the kernel is a polynomial of degree <=7 in each of x1, x2, 1/two_at, "
        f"so agreement on 9 points per variable is identity for all reals. (2) every entry of the Cartesian-to-pure tables l<=7 and every Cartesian normalisation n<=7 x 8 exponents. "
        f"(3) compute_overlap: all ordered pairs of shell types (l<={lmax} Cartesian, 2..{lmax} pure) x deviation-bounded enumeration k<={k} over geometry(9: generic, coincident, axis-aligned, prefactor 1e-8, 3e-15, 3e-16, far, 3 and 10 bohr apart) x contraction(7, incl. primitives listed in increasing and unsorted order; distance x primitive order also as a full product) x conventions(7) x mode(5: two bases, one basis, one basis on 5 centres, the same object twice at two geometries, two bases whose shells carry the same centre index) x exponent set(4). "
        "Distinct = (type pair, deviation set)."
    )
    ctx.assumptions += [
        "degree bound of the 1-D kernel (read off its loop structure) is the stated assumption behind the grid-identity argument",
        "contributions of primitive pairs with Gaussian prefactor < 1e-15 are excluded exactly as the statement allows: the reference computes their absolute sum and adds it to the tolerance",
        "for l>=6 the 36-primitive-pair and 5-centre variants are explored only as single deviations (cost cap)",
    ]


def replay(ctx, payload):
    case = payload["case"]
    if "kernel" in payload["signature"] or "n1" in case:
        res = kernel_worker([(case["n1"], case["n2"])], payload.get("seed", 0), "quick")
    elif "shell0" in case:
        c = {k: case[k] for k, _ in SPACE}
        res = overlap_worker([(tuple(case["shell0"]), tuple(case["shell1"]), c)], payload.get("seed", 0), "quick")
    else:
        tables(ctx)
        rejections(ctx)
        return
    for v in res["violations"]:
        ctx.violation(v["clause"], v["sig"], v["case"], v["detail"])
