"""Shared save/reload engine for C02 (one cycle, attribute comparison) and C15 (cycles 2 and 3, bit identity)."""

from __future__ import annotations

import os
import shutil
import warnings

import numpy as np

from mc import dbe
from props import fmtspecs


def _relayout_array(a, mode):
    """Same logical array in another memory layout (Fortran order, or a strided view into a larger buffer)."""
    if not isinstance(a, np.ndarray) or a.ndim == 0 or a.size == 0:
        return a
    if mode == "F":
        return np.asfortranarray(a) if a.ndim >= 2 else a[::-1].copy()[::-1]  # 1-D: negative-stride view
    big = np.zeros(a.shape[:-1] + (2 * a.shape[-1],), dtype=a.dtype)
    big[..., ::2] = a
    return big[..., ::2]


def relayout(obj, mode):
    """Every array reachable from the object's public attributes in the given memory layout; values are unchanged."""
    import attrs

    if mode == "C":
        return obj

    def conv(v):
        if isinstance(v, np.ndarray):
            return _relayout_array(v, mode)
        if isinstance(v, dict):
            return {k: conv(x) for k, x in v.items()}
        if attrs.has(type(v)) and type(v).__name__ in ("Cube", "MolecularOrbitals"):
            return attrs.evolve(v, **{a.name.lstrip("_"): conv(getattr(v, a.name.lstrip("_"))) for a in attrs.fields(type(v)) if isinstance(getattr(v, a.name.lstrip("_")), (np.ndarray, dict))})
        return v

    changes = {}
    for a in attrs.fields(type(obj)):
        name = a.name.lstrip("_")
        if a.name.startswith("_"):
            continue  # charge / nelec / spinpol / atcorenums keep their (possibly lazy) private state
        v = getattr(obj, name)
        nv = conv(v)
        if nv is not v:
            changes[name] = nv
    return attrs.evolve(obj, **changes) if changes else obj


class _WithLayout:
    """A format spec with one more axis: the memory layout of the arrays handed to the writer."""

    def __init__(self, spec):
        self._spec = spec
        self.space = list(spec.space) + [("array_layout", ["C", "F", "strided"])]

    def __getattr__(self, name):
        return getattr(self._spec, name)

    def build(self, case, seed):
        obj, dkw, lkw = self._spec.build({k: v for k, v in case.items() if k != "array_layout"}, seed)
        return relayout(obj, case.get("array_layout", "C")), dkw, lkw


def all_specs():
    specs = dict(fmtspecs.SIMPLE)
    try:
        from props import wfnspecs

        specs.update(wfnspecs.SPECS)
    except ImportError:
        pass
    return {name: _WithLayout(spec) for name, spec in specs.items()}


def snapshot(obj, depth=0):
    """Bit-exact, order-preserving canonical form of anything reachable from an IOData object."""
    import attrs

    if obj is None or isinstance(obj, (bool, int, str)):
        return obj
    if isinstance(obj, float):
        return ("f", obj.hex() if obj == obj else "nan")
    if isinstance(obj, (np.floating,)):
        return ("f", float(obj).hex() if obj == obj else "nan")
    if isinstance(obj, (np.integer,)):
        return int(obj)
    if isinstance(obj, np.bool_):
        return bool(obj)
    if isinstance(obj, np.ndarray):
        if obj.dtype == object or obj.dtype.kind in "US":
            return ("a", str(obj.dtype.kind), obj.shape, tuple(snapshot(x, depth + 1) for x in obj.ravel().tolist()))
        return ("a", str(obj.dtype), obj.shape, obj.tobytes())
    if isinstance(obj, dict):
        return ("d", tuple((repr(k), snapshot(v, depth + 1)) for k, v in obj.items()))
    if isinstance(obj, (list, tuple)):
        return ("l" if isinstance(obj, list) else "t", tuple(snapshot(v, depth + 1) for v in obj))
    if attrs.has(type(obj)):
        # private fields of IOData (_atcorenums, _charge, _nelec, _spinpol) are observed through their public properties:
        # a lazily filled default core charge is, by the statement of C09/C15, not a difference
        return ("o", type(obj).__name__, tuple((a.name, snapshot(getattr(obj, a.name.lstrip("_")), depth + 1)) for a in attrs.fields(type(obj))))
    return ("r", repr(obj))


def first_difference(a, b, path=""):
    if type(a) is not type(b):
        return f"{path}: {type(a).__name__} vs {type(b).__name__}"
    if isinstance(a, tuple) and a and a[0] in ("d", "l", "t", "o", "a"):
        if a[0] == "a":
            if a[1:3] != b[1:3]:
                return f"{path}: array {a[1:3]} vs {b[1:3]}"
            if a[3] != b[3]:
                if isinstance(a[3], bytes):
                    x = np.frombuffer(a[3], dtype=a[1])
                    y = np.frombuffer(b[3], dtype=b[1])
                    i = int(np.argmax(x != y))
                    return f"{path}[{i}]: {x[i]!r} vs {y[i]!r}"
                return f"{path}: {a[3][:5]} vs {b[3][:5]}"
            return None
        items_a = a[-1]
        items_b = b[-1]
        if len(items_a) != len(items_b):
            return f"{path}: {len(items_a)} vs {len(items_b)} items"
        for x, y in zip(items_a, items_b):
            if a[0] in ("d", "o"):
                if x[0] != y[0]:
                    return f"{path}: key {x[0]} vs {y[0]}"
                r = first_difference(x[1], y[1], f"{path}.{x[0]}")
            else:
                r = first_difference(x, y, path + "[]")
            if r:
                return r
        return None
    if a != b:
        return f"{path}: {a!r} vs {b!r}"
    return None


def numeric_gap(a, b):
    """(structure_equal, max relative difference) between two snapshots; floats/float arrays compared numerically."""
    if type(a) is not type(b):
        return False, 0.0
    if isinstance(a, tuple) and a and a[0] == "f" and len(a) == 2:
        if a[1] == b[1]:
            return True, 0.0
        if "nan" in (a[1], b[1]):
            return False, 0.0
        x, y = float.fromhex(a[1]), float.fromhex(b[1])
        return True, abs(x - y) / max(abs(x), abs(y), 1e-300)
    if isinstance(a, tuple) and a and a[0] == "a":
        if a[1:3] != b[1:3]:
            return False, 0.0
        if a[3] == b[3]:
            return True, 0.0
        if isinstance(a[3], bytes) and a[1].startswith("float"):
            x = np.frombuffer(a[3], dtype=a[1])
            y = np.frombuffer(b[3], dtype=b[1])
            scale = float(np.abs(x).max()) or 1e-300
            return True, float(np.abs(x - y).max() / scale)
        return False, 0.0
    if isinstance(a, tuple) and a and a[0] in ("d", "l", "t", "o"):
        if len(a[-1]) != len(b[-1]) or a[:-1] != b[:-1]:
            return False, 0.0
        worst = 0.0
        for x, y in zip(a[-1], b[-1]):
            if a[0] in ("d", "o"):
                if x[0] != y[0]:
                    return False, 0.0
                ok, g = numeric_gap(x[1], y[1])
            else:
                ok, g = numeric_gap(x, y)
            if not ok:
                return False, 0.0
            worst = max(worst, g)
        return True, worst
    return a == b, 0.0


def worker(chunk, seed, tier):
    """chunk items: (mode, fmtname, case).  mode in {"c02", "c15"}."""
    from iodata import dump_one, load_one
    from mc.core import Part, make_scratch

    part = Part(seed, tier)
    specs = all_specs()
    tmp = make_scratch()
    try:
        for mode, fname, case in chunk:
            spec = specs[fname]
            part.count()
            devs = dbe.dev_str(spec.space, case)
            part.nontrivial(f"{fname}:{devs}")
            if len(part.samples) < 1 and len(dbe.deviations(spec.space, case)) >= 1:
                part.sample({"format": fname, **case})
            info = {"format": fname, **case}
            try:
                obj, dkw, lkw = spec.build(case, seed)
            except Exception as exc:  # noqa: BLE001
                if type(exc).__name__ == "Infeasible":
                    part.outcome("generator", "infeasible")
                    continue
                raise RuntimeError(f"harness cannot build {fname} {case}: {exc!r}") from exc
            path = str(tmp / spec.fname)
            files = []
            objs = [obj]
            ok = True
            ncycle = 1 if mode == "c02" else 3
            for icycle in range(ncycle):
                if os.path.exists(path):
                    os.remove(path)
                with warnings.catch_warnings():
                    warnings.simplefilter("ignore")
                    try:
                        dump_one(objs[-1], path, fmt=spec.fmt, **dkw)
                    except Exception as exc:  # noqa: BLE001
                        if icycle == 0:
                            verdict = spec.refusal_allowed(case) if hasattr(spec, "refusal_allowed") else False
                            part.outcome(f"{mode}-dump", "refused-allowed" if verdict else f"REFUSED-{type(exc).__name__}")
                            if not verdict and mode == "c02":
                                part.violation("written-not-refused", f"{fname}:refused:{sig_devs(spec, case, 'dump')}", info,
                                               f"{fname} [{devs}]: dump_one refused an object in the documented domain: {exc!r} caused by {exc.__cause__!r}")
                        else:
                            part.violation("cycle-dump", f"{fname}:cycle{icycle + 1}-dump-fails:{sig_devs(spec, case, 'dump')}", info,
                                           f"{fname} [{devs}]: object loaded from IOData's own file cannot be dumped again: {exc!r} caused by {exc.__cause__!r}")
                        ok = False
                        break
                    with open(path, "rb") as fh:
                        files.append(fh.read())
                    try:
                        back = load_one(path, fmt=spec.fmt, **lkw)
                    except Exception as exc:  # noqa: BLE001
                        if mode == "c02" or icycle > 0:
                            part.violation("reload", f"{fname}:reload-fails:{sig_devs(spec, case, 'reload')}", info,
                                           f"{fname} [{devs}]: file written by dump_one cannot be loaded (cycle {icycle + 1}): {exc!r} caused by {exc.__cause__!r}")
                        part.outcome(f"{mode}-reload", "FAILS")
                        ok = False
                        break
                objs.append(back)
            if not ok:
                continue
            if mode == "c02":
                diff = fmtspecs.Diff()
                spec.compare(obj, objs[1], case, diff)
                part.outcome("c02-compare", "equal" if not diff.problems else "DIFFERS")
                for clause, msg in diff.problems:
                    part.violation("attribute", f"{fname}:{clause}:{sig_devs(spec, case, clause)}", info, f"{fname} [{devs}]: {msg}")
            else:
                s1, s2, s3 = (snapshot(o) for o in objs[1:4])
                if hasattr(spec, "cycle_filter"):
                    s1, s2, s3 = (spec.cycle_filter(s) for s in (s1, s2, s3))
                f2, f3 = files[1], files[2]
                if hasattr(spec, "file_filter"):
                    f2, f3 = spec.file_filter(f2), spec.file_filter(f3)
                d12 = first_difference(s1, s2)
                d23 = first_difference(s2, s3)
                part.outcome("c15-object", "bit-identical" if not d12 and not d23 else "DRIFTS")
                part.outcome("c15-file", "byte-identical" if f2 == f3 else "DIFFERS")
                ulp = False
                if d12 or d23:
                    ok12, g12 = numeric_gap(s1, s2)
                    ok23, g23 = numeric_gap(s2, s3)
                    ulp = ok12 and ok23 and max(g12, g23) <= 4e-15
                if ulp:
                    part.violation("object-drift", f"{fname}:object-ulp-drift", info, f"{fname} [{devs}]: reloaded objects differ in the last bits between cycles: {d12 or d23}")
                elif d12:
                    part.violation("object-drift", f"{fname}:object-cycle2!=cycle1:{sig_devs(spec, case, 'drift')}", info, f"{fname} [{devs}]: second reload differs from first: {d12}")
                elif d23:
                    part.violation("object-drift", f"{fname}:object-cycle3!=cycle2:{sig_devs(spec, case, 'drift')}", info, f"{fname} [{devs}]: third reload differs from second: {d23}")
                if f2 != f3 and ulp:
                    part.violation("file-drift", f"{fname}:file-ulp-drift", info, f"{fname} [{devs}]: third file differs from second in last printed digits")
                elif f2 != f3:
                    la, lb = f2.split(b"\n"), f3.split(b"\n")
                    i = next((i for i, (x, y) in enumerate(zip(la, lb)) if x != y), min(len(la), len(lb)))
                    part.violation("file-drift", f"{fname}:file-cycle3!=cycle2:{sig_devs(spec, case, 'drift')}", info,
                                   f"{fname} [{devs}]: third file differs from second at line {i + 1}: {la[i][:80] if i < len(la) else b''!r} vs {lb[i][:80] if i < len(lb) else b''!r}")
    finally:
        shutil.rmtree(tmp, ignore_errors=True)
    return part.result()


def sig_devs(spec, case, clause):
    """Signature tail: the deviation axes (names only with values) of the case; minimisation happens in the runner."""
    return dbe.dev_str(spec.space, case)


def minimise_and_merge(ctx, mode):
    """Replace each violation's case by its deterministically minimised deviation set (re-running the failing clause)."""
    specs = all_specs()
    new = []
    cache = {}
    known = {}  # (fname, head) -> list of minimal deviation dicts
    order = sorted(ctx.violations, key=lambda v: len(dbe.deviations(specs[v.case["format"]].space, {n: _restore(v.case[n], m) for n, m in specs[v.case["format"]].space})))
    for v in order:
        fname = v.case["format"]
        spec = specs[fname]
        default = {n: m[0] for n, m in spec.space}
        case = {n: _restore(v.case[n], m) for n, m in spec.space}
        head = v.sig.rsplit(":", 1)[0]
        if v.sig.endswith("ulp-drift"):
            new.append((v.clause, v.sig, v.case, v.detail))
            continue
        small = None
        for k in known.get((fname, head), []):
            if all(case[n] == val for n, val in k.items() if val != default[n]):
                small = k
                break
        if small is None:

            def fails(trial, head=head, fname=fname):
                key = (head, fname, repr(sorted(trial.items(), key=lambda kv: kv[0])))
                if key not in cache:
                    res = worker([(mode, fname, trial)], ctx.seed, ctx.tier)
                    cache[key] = any(x["sig"].rsplit(":", 1)[0] == head for x in res["violations"])
                return cache[key]

            small = dbe.minimise(spec.space, case, fails)
            known.setdefault((fname, head), []).append(small)
        sig = head + ":" + dbe.dev_str(spec.space, small)
        new.append((v.clause, sig, {"format": fname, **small}, v.detail))
    ctx.violations = []
    for clause, sig, case, detail in new:
        ctx.violation(clause, sig, case, detail)


def _restore(value, menu):
    """JSON/pickle round trips may turn tuples into lists; map back onto the menu entry."""
    for m in menu:
        if (type(m) is type(value) and m == value) or (isinstance(m, tuple) and list(m) == value):
            return m
    return value
