"""C01 - wavefunction conversion never silently changes the wavefunction (DBE x targets x allow_changes + corpus)."""

from __future__ import annotations

import os
import shutil
import warnings

import numpy as np

from mc import dbe
from mc.core import CORPUS
from props import common, wfn
from ref import gto

LEVEL = "exploration"

# (relative, absolute) size of half a unit in the last printed place, per target
COEFF_TOL = {"fchk": (0.6e-8, 0.0), "molden": (4e-16, 0.0), "molekel": (0.0, 0.6e-12), "wfn": (6e-8, 0.0), "wfx": (1e-13, 0.0)}
ENERGY_TOL = {"fchk": (0.6e-8, 0.0), "molden": (4e-16, 0.0), "molekel": (0.0, 0.6e-12), "wfn": (0.0, 0.6e-6), "wfx": (1e-14, 0.0)}
OCC_TOL = {"fchk": (0.0, 0.0), "molden": (4e-16, 0.0), "molekel": (0.0, 0.6e-7), "wfn": (0.0, 0.6e-7), "wfx": (1e-14, 0.0)}
COORD_TOL = {"fchk": (0.6e-8, 1e-12), "molden": (0.0, 1e-15), "molekel": (0.0, 0.6e-6 * 1.8897261246257702 + 1e-12), "wfn": (0.0, 0.6e-8), "wfx": (1e-14, 1e-15)}
CORE_TARGETS = ("fchk", "molden", "wfx")


def spin_lists(data, vals):
    """alpha and beta lists [(row of orbital values, occupation, energy)] of an object."""
    mo = data.mo
    n = vals.shape[0]
    en = mo.energies if mo.energies is not None else np.zeros(n)
    if mo.kind == "restricted":
        return [(vals, np.asarray(mo.occsa), en), (vals, np.asarray(mo.occsb), en)]
    na = mo.norba
    return [(vals[:na], np.asarray(mo.occs[:na]), en[:na]), (vals[na:], np.asarray(mo.occs[na:]), en[na:])]


def compare(src, back, target, problems):
    # ---- nuclei
    if not (np.shape(src.atnums) == np.shape(back.atnums) and (np.asarray(src.atnums) == np.asarray(back.atnums)).all()):
        problems.append(("nuclei", f"atnums {np.asarray(src.atnums).tolist()} -> {np.asarray(back.atnums).tolist()}"))
        return
    rel, ab = COORD_TOL[target]
    if np.abs(src.atcoords - back.atcoords).max() > rel * np.abs(src.atcoords).max() + ab:
        problems.append(("nuclei", f"coordinates moved by {np.abs(src.atcoords - back.atcoords).max():.3e}"))
        return
    if target in CORE_TARGETS and np.abs(np.asarray(src.atcorenums) - np.asarray(back.atcorenums)).max() > 1e-7:
        problems.append(("nuclei", f"core charges {np.asarray(src.atcorenums).tolist()} -> {np.asarray(back.atcorenums).tolist()}"))
    # ---- orbitals as functions of space, on the reloaded geometry
    coords = back.atcoords
    try:
        bv_src = gto.eval_basis(wfn.printed_basis(src, target), src.obasis.conventions, coords, gto.PROBE_POINTS)
        v_src = gto.eval_orbitals(src.mo.coeffs, bv_src)
        v_back, bv_back = wfn.orbital_values(back, coords)
    except Exception as exc:  # noqa: BLE001
        problems.append(("orbitals", f"reloaded basis cannot be evaluated: {exc!r}"))
        return
    rel, ab = COEFF_TOL[target]
    tol_src = (rel * np.abs(src.mo.coeffs).T + ab) @ np.abs(bv_src) + 1e-13
    k_src, k_back = src.mo.kind, back.mo.kind
    ambiguous = target == "wfn" and float(np.max(src.mo.occs)) <= 1.0 and (back.extra or {}).get("mo_spin") is None
    if ambiguous and (k_src != k_back or (k_src == "unrestricted" and src.mo.norba != back.mo.norba)):
        lists = [((v_src, np.asarray(src.mo.occs), src.mo.energies), (v_back, np.asarray(back.mo.occs), back.mo.energies), tol_src, "all")]
    else:
        ls, lb = spin_lists(src, v_src), spin_lists(back, v_back)
        if src.mo.kind == "restricted":
            tols = [tol_src, tol_src]
        else:
            tols = [tol_src[: src.mo.norba], tol_src[src.mo.norba :]]
        lists = [(ls[0], lb[0], tols[0], "alpha"), (ls[1], lb[1], tols[1], "beta")]
    for (va, oa, ea), (vb, ob, eb), tol, label in lists:
        if va.shape != vb.shape:
            problems.append(("orbitals", f"{label}: {va.shape[0]} orbitals written, {vb.shape[0]} read back ({k_src} -> {k_back})"))
            continue
        err = np.abs(va - vb)
        if (err > tol).any():
            i, p = np.unravel_index((err - tol).argmax(), err.shape)
            ratio = vb[i, p] / va[i, p] if va[i, p] else float("nan")
            problems.append(("orbitals", f"{label} orbital {i} at probe point {p}: {va[i, p]!r} -> {vb[i, p]!r} (ratio {ratio:.6g}, tol {tol[i, p]:.1e})"))
        r, a = OCC_TOL[target]
        if np.abs(oa - ob).max(initial=0.0) > r * max(1.0, np.abs(oa).max(initial=0.0)) + a + 1e-15:
            problems.append(("occupations", f"{label} occupations {oa.tolist()} -> {ob.tolist()}"))
        if ea is not None and eb is not None:
            r, a = ENERGY_TOL[target]
            if (np.abs(np.asarray(ea) - np.asarray(eb)) > r * np.abs(ea) + a + 1e-15).any():
                problems.append(("energies", f"{label} energies {np.asarray(ea).tolist()} -> {np.asarray(eb).tolist()}"))
    # ---- density matrices (only FCHK stores them)
    if target == "fchk":
        for key, dm in src.one_rdms.items():
            if key == "scf" and back.mo.kind == "restricted" and abs(back.mo.spinpol) > 0:
                continue  # documented: the reader drops the SCF density of restricted open-shell files
            dmb = back.one_rdms.get(key)
            if dmb is None:
                problems.append(("density", f"one_rdms[{key}] written but not read back"))
                continue
            ra = gto.density(dm, bv_src)
            rb = gto.density(dmb, bv_back)
            tol = 2e-8 * np.einsum("ab,ap,bp->p", np.abs(dm), np.abs(bv_src), np.abs(bv_src)) + 1e-13
            if (np.abs(ra - rb) > tol).any():
                p = int((np.abs(ra - rb) - tol).argmax())
                problems.append(("density", f"one_rdms[{key}] density at probe point {p}: {ra[p]!r} -> {rb[p]!r}"))


def source_entries(src, v_src, tol_src):
    """[(values, tolerance, occupation, energy, spin)] - one entry per listed orbital of the object."""
    mo = src.mo
    en = mo.energies if mo.energies is not None else np.full(v_src.shape[0], np.nan)
    if mo.kind == "restricted":
        return [(v_src[i], tol_src[i], float(mo.occs[i]), float(en[i]), "both") for i in range(v_src.shape[0])]
    na = mo.norba
    return [(v_src[i], tol_src[i], float(mo.occs[i]), float(en[i]), "alpha" if i < na else "beta") for i in range(v_src.shape[0])]


def denotes(src, target, path, problems, part):
    """Independent-reader clause: what the written file denotes (ref/wfreaders.py, no iodata reader involved) against the object."""
    from ref import wfreaders

    with open(path) as fh:
        text = fh.read()
    try:
        if target == "fchk":
            table = wfreaders.read_fchk(text)
            xyz, _shells, ca, cb, _nindep = wfreaders.fchk_model(table)
            bv_file = wfreaders.fchk_basis_at(table, gto.PROBE_POINTS)
        else:
            if target in ("molden", "molekel"):
                table = wfreaders.read_molden(text) if target == "molden" else wfreaders.read_molekel(text)
                xyz = table["xyz"]
                v_file = wfreaders.molden_orbitals_at(table, gto.PROBE_POINTS)
            else:
                table = wfreaders.read_wfn(text) if target == "wfn" else wfreaders.read_wfx(text)
                xyz = table["xyz"]
                v_file = wfreaders.primitive_orbitals_at(table, gto.PROBE_POINTS)
    except wfreaders.Unsupported as exc:
        part.outcome("independent-reader", f"{target}:not-judged:{str(exc).split(' ')[0]}")
        return
    except Exception as exc:  # noqa: BLE001
        problems.append(("independent-reader", f"the written file does not follow the {target} layout: {exc!r}"))
        return
    if xyz.shape != np.shape(src.atcoords):
        problems.append(("independent-reader", f"{xyz.shape[0]} nuclei in the file, {len(src.atcoords)} in the object"))
        return
    rel, ab = COORD_TOL[target]
    if np.abs(xyz - src.atcoords).max() > rel * np.abs(src.atcoords).max() + ab:
        problems.append(("independent-reader", f"coordinates in the file differ by {np.abs(xyz - src.atcoords).max():.3e}"))
        return
    bv_src = gto.eval_basis(wfn.printed_basis(src, target), src.obasis.conventions, xyz, gto.PROBE_POINTS)
    v_src = gto.eval_orbitals(src.mo.coeffs, bv_src)
    rel, ab = COEFF_TOL[target]
    tol_src = (rel * np.abs(src.mo.coeffs).T + ab) @ np.abs(bv_src) + 1e-13
    entries = source_entries(src, v_src, tol_src)
    if target == "fchk":
        # orbitals are listed in order, alpha then beta; occupations are implied by the electron counts (aufbau)
        mo = src.mo
        na = mo.norba
        fa = ca @ bv_file
        fb = cb @ bv_file if cb is not None else None
        sa = v_src[:na]
        sb = v_src[na:] if mo.kind == "unrestricted" else v_src
        ta = tol_src[:na]
        tb = tol_src[na:] if mo.kind == "unrestricted" else tol_src
        for label, f, s_, t_ in (("alpha", fa, sa, ta), ("beta", fb if fb is not None else fa, sb, tb)):
            if f.shape != s_.shape:
                problems.append(("independent-reader", f"{label}: {f.shape[0]} orbitals in the file, {s_.shape[0]} in the object"))
            elif (np.abs(f - s_) > t_).any():
                i, p = np.unravel_index((np.abs(f - s_) - t_).argmax(), f.shape)
                problems.append(("independent-reader", f"{label} orbital {i} at probe point {p}: the object has {s_[i, p]!r}, the file denotes {f[i, p]!r}"))
        nel = (table.get("Number of alpha electrons"), table.get("Number of beta electrons"))
        want = (float(np.sum(mo.occsa)), float(np.sum(mo.occsb)))
        if abs(nel[0] - want[0]) > 1e-6 or abs(nel[1] - want[1]) > 1e-6:
            problems.append(("independent-reader", f"electron counts in the file {nel}, occupations of the object sum to {want}"))
        for key, lab in (("scf", "Total SCF Density"), ("scf_spin", "Spin SCF Density")):
            if key in src.one_rdms and lab in table:
                dm = np.asarray(src.one_rdms[key])
                df = wfreaders.untril(table[lab], bv_file.shape[0])
                ra, rb = gto.density(dm, bv_src), gto.density(df, bv_file)
                tol = 2e-8 * np.einsum("ab,ap,bp->p", np.abs(dm), np.abs(bv_src), np.abs(bv_src)) + 1e-13
                if (np.abs(ra - rb) > tol).any():
                    p = int((np.abs(ra - rb) - tol).argmax())
                    problems.append(("independent-reader", f"{lab} at probe point {p}: the object has {ra[p]!r}, the file denotes {rb[p]!r}"))
        part.outcome("independent-reader", f"{target}:judged")
        return
    # WFN / WFX: every listed orbital must be an orbital of the object; occupation per spatial function must agree
    spins = table.get("spins")
    # spatial functions of the object: connected components of "equal within tolerance" (degenerate or coinciding
    # orbitals, e.g. the alpha and beta copy of a closed shell, share one component)
    parent = list(range(len(entries)))

    def find(i):
        while parent[i] != i:
            parent[i] = parent[parent[i]]
            i = parent[i]
        return i

    for i, ei in enumerate(entries):
        for j in range(i):
            if find(i) != find(j) and (np.abs(ei[0] - entries[j][0]) <= ei[1] + entries[j][1]).all():
                parent[find(i)] = find(j)
    comp = {}
    for i, e in enumerate(entries):
        comp.setdefault(find(i), [None, None, [], []])[2].append(e)
    clusters = list(comp.values())
    root_of = {id(e): find(i) for i, e in enumerate(entries)}
    r_e, a_e = ENERGY_TOL[target]
    r_o, a_o = OCC_TOL[target]
    for i, (num, occ, en, _coefs) in enumerate(table["mos"]):
        for e in entries:
            if not (np.abs(e[0] - v_file[i]) <= e[1]).all():
                continue
            c = comp[root_of[id(e)]]
            c[3].append((occ, en, spins[i] if spins else None))
            if not any(np.isnan(m[3]) or abs(m[3] - en) <= r_e * abs(m[3]) + a_e + 1e-15 for m in c[2]):
                problems.append(("independent-reader", f"orbital {num} of the file has energy {en!r}, the matching orbitals of the object have {[m[3] for m in c[2]]}"))
            break
        else:
            problems.append(("independent-reader", f"orbital {num} of the file (occupation {occ}) is not an orbital of the object: values at the probe points {v_file[i][:3].tolist()}..."))
    for c in clusters:
        so, fo = sum(e[2] for e in c[2]), sum(f[0] for f in c[3])
        if abs(so - fo) > (r_o * max(1.0, abs(so)) + a_o) * max(1, len(c[3])) + 1e-12:
            problems.append(("independent-reader", f"a spatial orbital of the object carries {so} electrons, the file gives it {fo} ({len(c[3])} listed orbitals)"))
        elif spins and src.mo.kind == "unrestricted" and all(f[2] in ("alpha", "beta") for f in c[3]):
            sa_, fa_ = sum(e[2] for e in c[2] if e[4] == "alpha"), sum(f[0] for f in c[3] if f[2] == "alpha")
            if abs(sa_ - fa_) > (r_o * max(1.0, abs(sa_)) + a_o) * max(1, len(c[3])) + 1e-12:
                problems.append(("independent-reader", f"alpha occupation of a spatial orbital: object {sa_}, file {fa_}"))
    part.outcome("independent-reader", f"{target}:judged")


def run_case(part, src, target, allow, info, tmp, tag):
    from iodata import dump_one, load_one
    from iodata.utils import PrepareDumpWarning

    path = str(tmp / wfn.TARGETS[target])
    if os.path.exists(path):
        os.remove(path)
    with warnings.catch_warnings(record=True) as wl:
        warnings.simplefilter("always")
        try:
            out = dump_one(src, path, allow_changes=allow)
            err = None
        except Exception as exc:  # noqa: BLE001 - any error is an accepted outcome (C08 judges the type)
            out, err = None, exc
    warned = any(issubclass(w.category, PrepareDumpWarning) for w in wl)
    if err is not None:
        part.outcome("dump", f"{target}:error-{type(err).__name__}")
        return [], "error"
    part.outcome("dump", f"{target}:written")
    problems = []
    if allow:
        if (out is not src) != warned:
            problems.append(("announced", f"returned object {'differs from' if out is not src else 'is'} the argument but PrepareDumpWarning issued={warned}"))
    elif out is not src:
        problems.append(("announced", "allow_changes=False but a different object was written"))
    if target in wfn.TARGETS:
        try:
            denotes(src, target, path, problems, part)
        except Exception as exc:  # noqa: BLE001
            raise RuntimeError(f"independent reader failed on {info}: {exc!r}") from exc
    with warnings.catch_warnings():
        warnings.simplefilter("ignore")
        try:
            back = load_one(path)
        except Exception as exc:  # noqa: BLE001
            problems.append(("self-readable", f"file written without error cannot be loaded: {exc!r} caused by {exc.__cause__!r}"[:400]))
            return problems, "written"
    compare(src, back, target, problems)
    return problems, "written"


def worker(chunk, seed, tier):
    from mc.core import Part, make_scratch

    part = Part(seed, tier)
    tmp = make_scratch()
    try:
        for item in chunk:
            if item[0] == "gen":
                _, case, target, allow = item
                devs = dbe.dev_str(wfn.SPACE, case)
                info = {"source": "generated", "target": target, "allow_changes": allow, **case}
                try:
                    src, _meta = wfn.build(case, target, seed)
                except wfn.Infeasible:
                    part.outcome("generator", "infeasible")
                    part.cov["infeasible_cases"] = part.cov.get("infeasible_cases", 0) + 1
                    continue
                except Exception as exc:  # noqa: BLE001
                    raise RuntimeError(f"harness cannot build {case}: {exc!r}") from exc
                tag = f"{target}:allow={allow}"
            else:
                _, fn, target, allow = item
                from iodata import load_one

                devs = fn
                info = {"source": "corpus", "file": fn, "target": target, "allow_changes": allow}
                with warnings.catch_warnings():
                    warnings.simplefilter("ignore")
                    try:
                        src = load_one(str(CORPUS / fn))
                    except Exception:  # noqa: BLE001
                        part.outcome("corpus", "source-not-loadable")
                        continue
                if src.mo is None or src.obasis is None or src.mo.coeffs is None or src.mo.occs is None or float(np.sum(src.mo.occs)) < 1.0:
                    continue  # the statement quantifies over wavefunctions with at least one electron
                tag = f"{target}:allow={allow}"
            part.count()
            part.nontrivial(f"{devs}|{target}|{allow}")
            if len(part.samples) < 1 and item[0] == "gen" and len(dbe.deviations(wfn.SPACE, case)) >= 1:
                part.sample(info)
            problems, status = run_case(part, src, target, allow, info, tmp, tag)
            part.outcome("verdict", f"{target}:" + ("error" if status == "error" else "same-wavefunction" if not problems else "DIFFERENT"))
            for clause, msg in problems:
                tail = devs
                if (target == "molekel" and clause == "self-readable" and "inconsistent with number of electrons" in msg
                        and not np.array_equal(np.asarray(src.atcorenums, dtype=float), np.asarray(src.atnums, dtype=float))):
                    tail = "core-charges-differ-from-atomic-numbers"  # mechanism class: the reader derives the electron count from atnums
                part.violation(clause, f"{target}:{clause}:{tail}", info, f"{target} allow_changes={allow} [{devs}]: {msg}")
    finally:
        shutil.rmtree(tmp, ignore_errors=True)
    return part.result()


CORPUS_EXT = (".fchk", ".molden", ".molden.input", ".mkl", ".wfn", ".wfx", ".mwfn", ".cp2k.out")
SLOW = ("h_sonly_sph", "li_sp", "F.", "cc_pvqz", "pvqz", "ne_", "he_", "o_", "c_")


def corpus_sources(thorough):
    out = []
    for fn in sorted(os.listdir(CORPUS)):
        if fn.endswith(CORPUS_EXT):
            size = os.path.getsize(CORPUS / fn)
            if not thorough and size > 150_000:
                continue
            out.append(fn)
    return out


def minimise(ctx):
    """Deterministic minimisation of generated-case violations to their smallest deviation set."""
    new = []
    cache = {}
    known = {}
    gen = [v for v in ctx.violations if v.case.get("source") == "generated"]
    rest = [v for v in ctx.violations if v.case.get("source") != "generated"]
    default = {n: m[0] for n, m in wfn.SPACE}
    gen.sort(key=lambda v: len(dbe.deviations(wfn.SPACE, {n: v.case[n] for n, _ in wfn.SPACE})))
    for v in gen:
        case = {n: v.case[n] for n, _ in wfn.SPACE}
        target, allow = v.case["target"], v.case["allow_changes"]
        head = v.sig.rsplit(":", 1)[0]
        if v.sig.endswith("core-charges-differ-from-atomic-numbers"):
            new.append((v.clause, v.sig, v.case, v.detail))
            continue
        small = None
        for k in known.get(head, []):
            if all(case[n] == val for n, val in k.items() if val != default[n]):
                small = k
                break
        if small is None:

            def fails(trial, head=head, target=target, allow=allow):
                key = (head, allow, repr(sorted(trial.items())))
                if key not in cache:
                    res = worker([("gen", trial, target, allow)], ctx.seed, ctx.tier)
                    cache[key] = any(x["sig"].rsplit(":", 1)[0] == head for x in res["violations"])
                return cache[key]

            small = dbe.minimise(wfn.SPACE, case, fails)
            known.setdefault(head, []).append(small)
        new.append((v.clause, head + ":" + dbe.dev_str(wfn.SPACE, small), {**v.case, **small}, v.detail))
    ctx.violations = rest
    for clause, sig, case, detail in new:
        ctx.violation(clause, sig, case, detail)


def run(ctx):
    from mc.pool import pmap

    k = 2 if ctx.thorough else 1
    cases = list(dbe.cases(wfn.SPACE, k))
    # the interaction the writers are most likely to get wrong is always enumerated as a full product:
    # shell order x conventions (thorough: x contraction), on top of the deviation-bounded enumeration
    default = {n: m[0] for n, m in wfn.SPACE}
    axes = dict(wfn.SPACE)
    extra = [dict(default, shell_order=so, conventions=cv, contraction=cn) for so in axes["shell_order"] for cv in axes["conventions"]
             for cn in (axes["contraction"] if ctx.thorough else ["segmented"])]
    if ctx.thorough:
        # ... and shell order x conventions x orbital kind (occupation handling differs per writer and per orbital kind)
        extra += [dict(default, shell_order=so, conventions=cv, mo=mo) for so in axes["shell_order"] for cv in axes["conventions"] for mo in axes["mo"]]
    seen = {repr(sorted(c.items())) for c in cases}
    uniq = {}
    for c in extra:
        uniq.setdefault(repr(sorted(c.items())), c)
    cases += [c for key, c in uniq.items() if key not in seen]
    jobs = [("gen", c, t, a) for c in cases for t in wfn.TARGETS for a in (False, True)]
    # ... and conventions x stored density matrices (x shell set in the thorough tier) for the one target that stores them
    rdm = [dict(default, conventions=cv, extras=ex, shellset=ss) for cv in axes["conventions"] for ex in axes["extras"] if ex.startswith("rdm")
           for ss in (axes["shellset"] if ctx.thorough else [default["shellset"], "+d-pure"])]
    rdm = [c for c in rdm if repr(sorted(c.items())) not in seen and repr(sorted(c.items())) not in {repr(sorted(e.items())) for e in extra}]
    jobs += [("gen", c, "fchk", a) for c in rdm for a in (False, True)]
    cases += rdm
    files = corpus_sources(ctx.thorough)
    jobs += [("corpus", f, t, a) for f in files for t in wfn.TARGETS for a in (False, True)]
    pmap(ctx, worker, jobs, chunk=8)
    minimise(ctx)
    ctx.cov.update(dbe_k=k, generated_cases=len(cases), corpus_sources=len(files), targets=list(wfn.TARGETS))
    ctx.exhaustive = True
    ctx.rule = (
        f"deviation-bounded enumeration k<={k} (plus the full products shell order x conventions [thorough: x contraction, and x orbital kind] and, for FCHK, conventions x stored density matrices x (Cartesian, pure) d shells [thorough: x every shell set]) over centers(6) x shell set(13) x contraction(6) x shell order(7) x conventions(10) x orbitals(15) x extras(11), every case fully crossed with the 5 dumpable "
        f"wavefunction formats x allow_changes; plus {len(files)} corpus wavefunction files as sources x 5 x 2. Outcome must be an error or a file that reloads to the same nuclei and, for every orbital, "
        "the same values at 14 probe points (independent evaluator ref/gto.py on source and reloaded object), same occupations/energies/spin and same density for stored density matrices. "
        "Distinct = (deviation set or corpus file, target, allow_changes)."
    )
    ctx.assumptions += [
        "exponent/coefficient alphabets are exactly printable by every target; tolerance = 0.6 unit in the last printed place of each coefficient, propagated linearly to orbital values",
        "source orbitals are evaluated on the reloaded geometry; coordinates are compared separately within printed digits",
        "spin labels are not compared for WFN files without $MOSPIN when no occupation exceeds 1 (documented heuristic)",
        "corpus files larger than 150 kB only in the thorough tier",
    ]


def replay(ctx, payload):
    case = payload["case"]
    if case.get("source") == "corpus":
        item = ("corpus", case["file"], case["target"], case["allow_changes"])
    else:
        item = ("gen", {n: case[n] for n, _ in wfn.SPACE}, case["target"], case["allow_changes"])
    res = worker([item], payload.get("seed", 0), "quick")
    for v in res["violations"]:
        ctx.violation(v["clause"], v["sig"], v["case"], v["detail"])
