"""C04 - every physical quantity is in atomic units, consistently across formats (full table of quantity x format pairs)."""

from __future__ import annotations

import itertools
import json
import os
import re
import shutil
import warnings

import numpy as np

from mc.core import CORPUS
from props import roundtrip
from ref import periodic, units, wfwriters, writers

LEVEL = "exploration"
ANG = units.angstrom

# standard atomic weights (IUPAC, abridged) typed by hand: physical anchor for masses
WEIGHTS = {1: 1.008, 6: 12.011, 7: 14.007, 8: 15.999, 9: 18.998, 14: 28.085, 17: 35.45, 3: 6.94}


def molecules(seed, n=3):
    mols = []
    for k in range(n):
        z = [[8, 1, 1], [6, 1, 1, 1, 1], [17, 3], [7, 7], [9, 1], [14, 8, 8]][(k + seed) % 6]
        nat = len(z)
        xyz = np.array([[0.1 + 0.9 * i + 0.05 * k, -0.4 * i + 0.3 * k, 0.25 * i * (-1) ** i + 0.125 * k] for i in range(nat)]) * ANG
        xyz = np.round(xyz / ANG, 3) * ANG
        cell = np.array([[6.0 + k, 0.0, 0.0], [0.5, 7.0, 0.0], [0.25, -0.75, 8.0]]) * ANG
        mols.append((z, xyz, cell))
    return mols


# ---- quantity carriers: format -> (filename, text) written in the format's prescribed unit by independent writers ----

def coord_files(z, xyz, cell):
    n = len(z)
    grid = np.arange(24.0).reshape(2, 3, 4) * 0.01 + 0.1  # unequal point counts: step vectors differ per direction
    orbs = [("Alpha", [(-0.5, 2.0, "1a", [1.0])])]
    from ref import vendors

    # a one-function basis on atom 0 for the two wavefunction containers (normalised s primitive)
    shells = [(0, 0, "c", [1.25], [1.0])]
    return {
        "xyz": ("m.xyz", writers.xyz(z, xyz, "t")),
        "extxyz": ("m.extxyz", writers.extxyz(z, xyz, cell, energy=-1.5, masses_au=np.array(model_masses(z)) * units.amu)),
        "pdb": ("m.pdb", writers.pdb(z, xyz, "t")),
        "mol2": ("m.mol2", writers.mol2(z, xyz, "t")),
        "sdf": ("m.sdf", writers.sdf(z, xyz, "t")),
        "gromacs": ("m.gro", writers.gro(xyz, "t", 2.5 * units.picosecond, vel_au=np.full((n, 3), 0.25) * units.nanometer / units.picosecond, cell_bohr=cell)),
        "charmm": ("m.crd", writers.crd(xyz, "t", weights=model_masses(z))),
        "fchk": ("m.fchk", wfwriters.fchk({"title": "t", "command": "SP", "lot": "RHF", "basis": "gen", "z": z, "cores": [float(v) for v in z], "xyz": xyz, "charge": int(sum(z) - 2),
                                           "shells": [(0, 0, [1.25], [1.0], None)], "nalpha": 1, "nbeta": 1, "ea": [-0.5], "ca": [[1.0]], "masses_amu": model_masses(z), "energy": -1.5})),
        "json_qcschema-massnumbers": ("mn.json", json.dumps({"schema_name": "qcschema_molecule", "schema_version": 2, "symbols": [writers.sym(zi) for zi in z], "geometry": [float(v) for v in xyz.ravel()],
                                                            "mass_numbers": [int(round(m)) for m in model_masses(z)], "molecular_charge": 0, "molecular_multiplicity": 1 + sum(z) % 2})),
        "json_qcschema": ("m.json", json.dumps({"schema_name": "qcschema_molecule", "schema_version": 2, "symbols": [writers.sym(zi) for zi in z], "geometry": [float(v) for v in xyz.ravel()],
                                                "masses": model_masses(z), "molecular_charge": 0, "molecular_multiplicity": 1 + sum(z) % 2})),
        "poscar": ("POSCAR", writers.poscar(sorted(z, reverse=True), xyz[np.argsort([-v for v in z], kind="stable")], cell, "t")[0]),
        "chgcar": ("CHGCAR", writers.poscar(sorted(z, reverse=True), xyz[np.argsort([-v for v in z], kind="stable")], cell, "t", grid=grid, grid_kind="chgcar")[0]),
        "locpot": ("LOCPOT", writers.poscar(sorted(z, reverse=True), xyz[np.argsort([-v for v in z], kind="stable")], cell, "t", grid=grid, grid_kind="locpot")[0]),
        "cube": ("m.cube", writers.cube(z, xyz, np.zeros(3), cell / np.array(grid.shape)[:, None], grid, "t")),
        "gaussianinput": ("m.com", writers.gaussian_input(z, xyz, "t")),
        "molden-au": ("au.molden", vendors.write_molden([(zi, *r) for zi, r in zip(z, xyz)], shells, orbs, "AU")),
        "molden-angs": ("angs.molden", vendors.write_molden([(zi, *r) for zi, r in zip(z, xyz)], shells, orbs, "Angs")),
        "molekel": ("m.mkl", vendors.write_molekel([(zi, *r) for zi, r in zip(z, xyz)], shells, orbs, int(sum(z) - 2), 1)),
    }, grid


def model_masses(z):
    """Masses in unified atomic mass units (standard atomic weights, typed by hand above)."""
    return [WEIGHTS.get(zi, 2.0 * zi) for zi in z]


def sorted_by_z(z, arr):
    order = np.argsort([-v for v in z], kind="stable")
    return np.asarray(arr)[order]


def model_pairs(ctx):
    """Write one model in every format (independent writers), load all, and compare every ordered pair per quantity."""
    from iodata import load_one

    tmp = ctx.scratch()
    nmol = 6 if ctx.thorough else 3
    for imol, (z, xyz, cell) in enumerate(molecules(ctx.seed, nmol)):
        files, grid = coord_files(z, xyz, cell)
        loaded = {}
        for name, (fname, text) in files.items():
            path = str(tmp / fname)
            with open(path, "w") as fh:
                fh.write(text)
            with warnings.catch_warnings():
                warnings.simplefilter("ignore")
                try:
                    loaded[name] = load_one(path, fmt="json_qcschema" if name.startswith("json_qcschema") else None)
                except Exception as exc:  # noqa: BLE001
                    ctx.violation("load", f"model:{name}:rejected", {"format": name, "molecule": imol}, f"reference file for {name} rejected: {exc!r} caused by {exc.__cause__!r}")
        vasp = {"poscar", "chgcar", "locpot"}

        def coords_of(name):
            c = loaded[name].atcoords
            return c  # VASP files list atoms grouped by descending Z: compared against the equally sorted model

        quantities = {
            "atcoords": {n: (coords_of(n), sorted_by_z(z, xyz) if n in vasp else xyz, 0.6e-3 * units.nanometer if n == "gromacs" else 2e-3 * ANG if n == "pdb" else 2e-4 * ANG if n in ("mol2", "sdf") else 2e-5 * ANG) for n in loaded},
            "cellvecs": {n: (loaded[n].cellvecs, cell, 2e-5 * ANG) for n in ("extxyz", "gromacs", "poscar", "chgcar", "locpot", "cube") if n in loaded},
            # masses: every carrier prints unified atomic mass units; the object must hold electron masses
            "atmasses": {n: (loaded[n].atmasses, np.array(model_masses(z)) * units.amu, 1e-5 * units.amu if n == "charmm" else 1e-6 * units.amu) for n in ("extxyz", "charmm", "fchk", "json_qcschema") if n in loaded},
            # mass numbers (integers, in u) stand in for the masses when a QCSchema file gives nothing else
            "atmasses(mass numbers)": {n: (loaded[n].atmasses, np.round(model_masses(z)) * units.amu, 1e-9 * units.amu) for n in ("json_qcschema-massnumbers",) if n in loaded},
        }
        for qname, per in quantities.items():
            # every format against the model (unit factor typed by hand) ...
            for n, (got, want, tol) in per.items():
                ctx.count()
                ctx.nontrivial((qname, n, imol))
                ok = got is not None and np.shape(got) == np.shape(want) and np.abs(np.asarray(got) - want).max() <= tol + 5e-9 * np.abs(want).max()
                ctx.outcome(qname, f"{n}:atomic-units" if ok else f"{n}:WRONG")
                if not ok:
                    ratio = None if got is None or np.shape(got) != np.shape(want) else float(np.abs(got).max() / max(np.abs(want).max(), 1e-300))
                    ctx.violation("units", f"{qname}:{n}:not-in-atomic-units", {"quantity": qname, "format": name_of(n), "molecule": imol}, f"{qname} loaded from {n}: max |value| ratio to the model in bohr = {ratio}")
            # ... and every ordered pair of formats against each other
            for a, b in itertools.permutations(per, 2):
                ctx.count()
                ga, wa, ta = per[a]
                gb, wb, tb = per[b]
                if ga is None or gb is None:
                    continue
                if (a in vasp) != (b in vasp) and qname == "atcoords":
                    gb = sorted_by_z(z, gb) if a in vasp else gb
                    ga = sorted_by_z(z, ga) if b in vasp else ga
                if np.shape(ga) != np.shape(gb):
                    continue
                ok = np.abs(np.asarray(ga) - np.asarray(gb)).max() <= ta + tb + 1e-8 * np.abs(wa).max()
                ctx.outcome("pairs", "agree" if ok else "DISAGREE")
                if not ok:
                    ctx.violation("units", f"{qname}:{a}-vs-{b}:same-system-different-numbers", {"quantity": qname, "formats": [a, b], "molecule": imol}, f"{qname}: {a} and {b} describe the same system but load to different numbers")
        # scalar / grid quantities
        checks = []
        if "gromacs" in loaded:
            g = loaded["gromacs"]
            checks += [("time", "gromacs", g.extra["time"], 2.5 * units.picosecond, 1e-6), ("velocities", "gromacs", g.extra["velocities"][0, 0], 0.25 * units.nanometer / units.picosecond, 1e-5)]
        if "chgcar" in loaded:
            checks.append(("density", "chgcar", loaded["chgcar"].cube.data[1, 0, 1], grid[1, 0, 1], 1e-8))
        if "locpot" in loaded:
            checks.append(("potential", "locpot", loaded["locpot"].cube.data[1, 0, 1], grid[1, 0, 1], 1e-8))
        if "cube" in loaded:
            checks.append(("grid-axes", "cube", loaded["cube"].cube.axes[0, 0], cell[0, 0] / grid.shape[0], 1e-6))
        for vname in ("chgcar", "locpot"):
            if vname in loaded:
                ax = loaded[vname].cube.axes
                for i, j in ((0, 0), (1, 0), (1, 1), (2, 0), (2, 1), (2, 2)):  # step vector i = cell vector i / number of points along i
                    checks.append((f"grid-axes[{i},{j}]", vname, ax[i, j], cell[i, j] / grid.shape[i], 1e-6))
        if "extxyz" in loaded:
            checks.append(("energy(passed-through)", "extxyz", loaded["extxyz"].energy, -1.5, 1e-12))
        for q, n, got, want, rel in checks:
            ctx.count()
            ctx.nontrivial((q, n, imol))
            ok = abs(got - want) <= rel * abs(want) + 5e-9 * abs(want)
            ctx.outcome(q, f"{n}:atomic-units" if ok else f"{n}:WRONG")
            if not ok:
                ctx.violation("units", f"{q}:{n}:not-in-atomic-units", {"quantity": q, "format": n, "molecule": imol}, f"{q} from {n}: loaded {got!r}, model in atomic units {want!r} (ratio {got / want:.6g})")
    ctx.sample({"molecule": molecules(ctx.seed, 1)[0][0], "formats": sorted(files)})


def name_of(n):
    return n


def written_units(ctx):
    """Every iodata writer converts from atomic units to the unit its format prescribes: parse the coordinates independently."""
    from iodata import dump_one, write_input

    tmp = ctx.scratch()
    float_re = r"[-+]?\d+\.\d+(?:[EeDd][-+]?\d+)?"
    for name, spec in roundtrip.all_specs().items():
        ctx.count()
        ctx.nontrivial(("written", name))
        case = {n: m[0] for n, m in spec.space}
        if "natom" in case:
            case["natom"] = 3
        obj, dkw, _ = spec.build(case, ctx.seed)
        if obj.atcoords is None:
            continue
        path = str(tmp / ("w_" + spec.fname if not spec.fname.startswith("POSCAR") else "POSCAR_w"))
        with warnings.catch_warnings():
            warnings.simplefilter("ignore")
            dump_one(obj, path, fmt=spec.fmt, **dkw)
        text = open(path).read()
        want_bohr = obj.atcoords[0]
        unit = {"xyz": ANG, "pdb": ANG, "mol2": ANG, "sdf": ANG, "molekel": ANG, "cube": 1.0, "fchk": 1.0, "molden": 1.0, "wfn": 1.0, "wfx": 1.0, "json_qcschema": 1.0, "poscar": None}[name]
        if unit is None:
            # fractional coordinates: check the cell vectors (angstrom) instead
            want = obj.cellvecs[0] / ANG
        else:
            want = want_bohr / unit
        nums = [float(x.replace("D", "E")) for x in re.findall(float_re, text)]
        # the three coordinates must appear consecutively somewhere in the file, in the prescribed unit
        digits = {"pdb": 1e-3, "mol2": 1e-4, "sdf": 1e-4, "molekel": 1e-6, "cube": 1e-6, "wfn": 1e-8}.get(name, 1e-9)
        found = any(all(abs(nums[i + k] - want[k]) <= 0.6 * digits + 1e-9 * abs(want[k]) for k in range(3)) for i in range(len(nums) - 2))
        ctx.outcome("written-units", f"{name}:prescribed-unit" if found else f"{name}:WRONG")
        if not found:
            ctx.violation("units", f"written:{name}:coordinates-not-in-prescribed-unit", {"format": name}, f"{name}: the first atom's coordinates {want.tolist()} ({'angstrom' if unit == ANG else 'bohr/fractional'}) do not appear in the written file")
    # masses in a written FCHK file are in amu - also on a repeated dump of the same object
    import attrs

    spec = roundtrip.all_specs()["fchk"]
    obj, dkw, _ = spec.build({n: m[0] for n, m in spec.space}, ctx.seed)
    masses_amu = np.array([15.99491, 1.00783])[: obj.natom]
    obj = attrs.evolve(obj, atmasses=masses_amu * units.amu)
    for attempt in (1, 2):
        ctx.count()
        ctx.nontrivial(("written-masses", attempt))
        path = str(tmp / "masses.fchk")
        with warnings.catch_warnings():
            warnings.simplefilter("ignore")
            dump_one(obj, path)
        text = open(path).read()
        blk = text.split("Real atomic weights")[1].split("\n")[1].split()
        got = np.array([float(x) for x in blk[: obj.natom]])
        ok = np.abs(got - masses_amu).max() < 1e-6
        ctx.outcome("written-units", f"fchk-masses-dump{attempt}:amu" if ok else f"fchk-masses-dump{attempt}:WRONG")
        if not ok:
            ctx.violation("units", f"written:fchk:masses-not-in-amu:dump{attempt}", {"format": "fchk", "dump": attempt}, f"FCHK 'Real atomic weights' of dump {attempt}: {got.tolist()}, expected {masses_amu.tolist()} amu")
    # ... and so are the masses in a written QCSchema molecule ("masses [u]") and in an extended XYZ file; the same after a
    # conversion (load the independently written FCHK / extXYZ / CHARMM / QCSchema model file, dump to each mass-carrying writer)
    from iodata import load_one

    z, xyz, cell = molecules(ctx.seed, 1)[0]
    files, _grid = coord_files(z, xyz, cell)
    want = np.array(model_masses(z))
    sources = {"object": attrs.evolve(obj, atmasses=masses_amu * units.amu)}
    for src in ("fchk", "extxyz", "charmm", "json_qcschema"):
        sp = str(tmp / ("conv_" + files[src][0]))
        with open(sp, "w") as fh:
            fh.write(files[src][1])
        with warnings.catch_warnings():
            warnings.simplefilter("ignore")
            try:
                sources[src] = load_one(sp, fmt="json_qcschema" if src == "json_qcschema" else None)
            except Exception:  # noqa: BLE001  (reported by model_pairs)
                continue
    for src, sobj in sources.items():
        if sobj.atmasses is None:
            continue
        expect = masses_amu if src == "object" else want
        if sobj.atnums is None:
            sobj = attrs.evolve(sobj, atnums=np.array(z), atcorenums=None)
        for target in ("json_qcschema", "fchk"):  # (extended XYZ has no writer)
            if target == "fchk" and sobj.mo is None:
                continue
            ctx.count()
            ctx.nontrivial(("converted-masses", src, target))
            path = str(tmp / f"conv_out.{ {'json_qcschema': 'json', 'extxyz': 'extxyz', 'fchk': 'fchk'}[target]}")
            with warnings.catch_warnings():
                warnings.simplefilter("ignore")
                try:
                    out = sobj
                    if target == "json_qcschema":
                        out = attrs.evolve(sobj, extra={**sobj.extra, "schema_name": "qcschema_molecule"}, charge=0 if sobj.charge is None else sobj.charge, spinpol=0, mo=None, obasis=None)
                    dump_one(out, path, fmt=target)
                except Exception as exc:  # noqa: BLE001
                    ctx.outcome("converted-masses", f"{src}->{target}:not-dumpable:{type(exc).__name__}")
                    continue
            text = open(path).read()
            if target == "json_qcschema":
                doc = json.loads(text)
                got = np.array((doc.get("molecule") or doc).get("masses", []), dtype=float)
            elif target == "extxyz":
                lines = text.splitlines()
                m = re.search(r"Properties=(\S+)", lines[1])
                cols, off = m.group(1).split(":"), 0
                idx = None
                for k in range(0, len(cols), 3):
                    if cols[k] == "masses":
                        idx = off
                    off += int(cols[k + 2])
                got = np.array([float(ln.split()[idx]) for ln in lines[2 : 2 + len(expect)]]) if idx is not None else np.array([])
            else:
                blk = text.split("Real atomic weights")[1].split("\n", 1)[1].split()
                got = np.array([float(x) for x in blk[: len(expect)]])
            ok = got.shape == expect.shape and np.abs(got - expect).max() < 2e-5
            ctx.outcome("converted-masses", f"{src}->{target}:amu" if ok else f"{src}->{target}:WRONG")
            if not ok:
                ratio = float(got[0] / expect[0]) if got.shape == expect.shape and len(got) else None
                ctx.violation("units", f"written:{target}:masses-not-in-amu", {"source": src, "target": target},
                              f"masses loaded from {src} and written to {target}: {got.tolist()} , the format prescribes unified atomic mass units {expect.tolist()} (ratio {ratio})")
    for prog in ("gaussian", "orca"):
        ctx.count()
        from iodata import IOData

        d = IOData(atnums=np.array([8, 1]), atcoords=np.array([[0.25, -1.5, 2.0], [1.0, 0.5, -0.75]]) * ANG, charge=0, spinpol=0)
        p = str(tmp / f"{prog}.inp")
        for attempt in (1, 2, 3):  # the same object written repeatedly: every file in angstrom, the object still in bohr
            write_input(d, p, prog)
            nums = [float(x) for x in re.findall(float_re, open(p).read())]
            found = any(abs(nums[i] - 0.25) < 1e-6 and abs(nums[i + 1] + 1.5) < 1e-6 and abs(nums[i + 2] - 2.0) < 1e-6 for i in range(len(nums) - 2))
            ctx.outcome("written-units", f"input-{prog}:angstrom" if found else f"input-{prog}:WRONG")
            if not found:
                ctx.violation("units", f"written:input-{prog}:coordinates-not-in-angstrom:write{attempt}", {"program": prog, "write": attempt}, f"coordinates of generated input number {attempt} of the same object are not in angstrom")
                break
        if abs(d.atcoords[0, 0] - 0.25 * ANG) > 1e-12:
            ctx.violation("units", f"written:input-{prog}:object-no-longer-in-bohr", {"program": prog}, f"atcoords[0,0] = {d.atcoords[0, 0]!r} after writing inputs, was {0.25 * ANG!r} bohr")


def constants(ctx):
    import iodata.utils as u

    for name, want in units.ALL.items():
        ctx.count()
        ctx.nontrivial(("constant", name))
        got = getattr(u, name, None)
        ok = got is not None and abs(got / want - 1) <= 1e-8
        ctx.outcome("constants", "CODATA" if ok else "WRONG")
        if not ok:
            ctx.violation("constants", f"constant:{name}", {"constant": name}, f"iodata.utils.{name} = {got!r}, CODATA 2018 by hand: {want!r}")


def corpus_anchors(ctx):
    """Physical anchors on program-written files: masses against standard atomic weights, Q-Chem moments against an independent parse."""
    from iodata import load_one

    def load(fn, fmt=None):
        with warnings.catch_warnings():
            warnings.simplefilter("ignore")
            return load_one(str(CORPUS / fn), fmt=fmt)

    mass_files = [("PCGamess_PUNCH.dat", None, "gamess"), ("water_hf_ccpvtz_freq_qchem.out", "qchemlog", "qchemlog"), ("h2o_sto3g.fchk", None, "fchk"), ("crambin.crd", None, "charmm"),
                  ("water_extended_trajectory.xyz", "extxyz", "extxyz"), ("Hydroxyl_radical_molecule.json", "json_qcschema", "json_qcschema"), ("water_full.json", "json_qcschema", "json_qcschema")]
    for fn, fmt, mod in mass_files:
        if not (CORPUS / fn).exists():
            continue
        try:
            d = load(fn, fmt)
        except Exception:  # noqa: BLE001
            continue
        if d.atmasses is None or d.atnums is None and mod != "charmm":
            continue
        ctx.count()
        ctx.nontrivial(("mass-anchor", fn))
        m = np.asarray(d.atmasses, dtype=float)
        # lightest atom: hydrogen-like masses must be ~1837 a.u., not ~1.008
        if d.atnums is not None:
            ratios = [m[i] / (WEIGHTS[int(z)] * units.amu) for i, z in enumerate(d.atnums) if int(z) in WEIGHTS]
        else:
            ratios = [m.min() / (1.008 * units.amu)]
        if not ratios:
            continue
        r = float(np.median(ratios))
        ok = 0.9 < r < 1.1
        ctx.outcome("mass-anchor", f"{mod}:atomic-units" if ok else f"{mod}:NOT-CONVERTED")
        if not ok:
            ctx.violation("units", f"atmasses:{mod}:not-in-atomic-units", {"file": fn, "format": mod}, f"{fn}: atmasses / (standard atomic weight x amu) = {r:.3e}; masses are stored in amu, not in atomic units" if abs(r * units.amu - 1) < 0.1 else f"{fn}: ratio {r:.3e}")
    # Q-Chem multipole moments are printed in Debye (and Debye-angstrom)
    fn = "water_hf_ccpvtz_freq_qchem.out"
    if (CORPUS / fn).exists():
        text = (CORPUS / fn).read_text()
        m = re.search(r"Dipole Moment \(Debye\)\s*\n\s*X\s+([-\d.]+)\s+Y\s+([-\d.]+)\s+Z\s+([-\d.]+)", text)
        d = load(fn, "qchemlog")
        if m and (1, "c") in d.moments:
            ctx.count()
            ctx.nontrivial(("qchem-dipole", fn))
            printed = np.array([float(x) for x in m.groups()])
            got = np.asarray(d.moments[(1, "c")])
            ok = np.abs(got - printed * units.debye).max() < 2e-4
            ctx.outcome("qchem-moments", "atomic-units" if ok else "NOT-CONVERTED")
            if not ok:
                ctx.violation("units", "moments:qchemlog:not-in-atomic-units", {"file": fn}, f"{fn}: dipole printed {printed.tolist()} Debye, loaded {got.tolist()} (expected {(printed * units.debye).tolist()} a.u.)")


def run(ctx):
    constants(ctx)
    model_pairs(ctx)
    written_units(ctx)
    corpus_anchors(ctx)
    ctx.exhaustive = True
    ctx.rule = (
        "the whole table: (i) the 10 conversion constants of iodata.utils against CODATA values typed by hand (1e-8 relative); (ii) for 3 (quick) / 6 (thorough) molecules the same system written by independent "
        "writers in the prescribed unit of 15 format variants (angstrom, nm, bohr, fractional; ps, nm/ps, amu, eV, electrons per cell): every format against the model and every ordered pair of formats against each other "
        "for coordinates and cell vectors, plus time, velocities, masses, density, potential, grid axes; (iii) every iodata writer's output parsed independently for the prescribed unit of the coordinates; "
        "(iv) program-written corpus files anchored physically (masses against standard atomic weights, Q-Chem dipole against the printed Debye values). Distinct = (quantity, format, molecule)."
    )
    ctx.assumptions += ["extended-XYZ energy/forces are passed through unconverted, as documented", "5e-9 relative slack between CODATA releases"]


def replay(ctx, payload):
    run(ctx)
    ctx.violations = [v for v in ctx.violations if v.sig == payload["signature"]]
