"""C16 - results depend only on the arguments (ESB over call histories + preemption-bounded thread schedules)."""

from __future__ import annotations

import itertools
import json
import os
import shutil
import subprocess
import sys
import warnings

from mc import se
from mc.core import VERIF, make_scratch
from props import c16calls

LEVEL = "model_checking"


def baselines(ctx, pool):
    """Every pool call alone in a fresh interpreter (in parallel)."""
    work = ctx.scratch()
    procs = []
    env = dict(os.environ, PYTHONHASHSEED="0")
    for i, (label, _) in enumerate(pool):
        w = work / f"base{i}"
        w.mkdir(exist_ok=True)
        procs.append((label, w, subprocess.Popen([sys.executable, "-m", "props.c16calls", str(w), str(i)], cwd=str(VERIF), stdout=subprocess.PIPE, stderr=subprocess.PIPE, env=env, text=True)))
        if len(procs) % 16 == 0:
            for _, _, p in procs[-16:]:
                p.wait()
    out = {}
    for label, w, p in procs:
        so, se_ = p.communicate()
        if p.returncode != 0:
            raise SystemExit(f"HARNESS-ERROR: baseline subprocess for {label} failed: {se_[-400:]}")
        rec = json.loads(so)[label]
        out[label] = json.loads(json.dumps(rec).replace(str(w), "<work>"))
    return out


def norm(rec, work):
    return json.loads(json.dumps(rec).replace(str(work), "<work>"))


def seq_worker(chunk, seed, tier):
    """Each item: a history (tuple of pool indices); executes it in this (forked, fresh-state) worker process
    and reports, for every step, result-vs-baseline and the state after the step."""
    from mc.core import Part

    part = Part(seed, tier)
    pool = c16calls.build_pool()
    for hist, base in chunk:
        # run the history in a forked child so that every history starts from the initial process state
        r, w = os.pipe()
        pid = os.fork()
        if pid == 0:
            os.close(r)
            work = make_scratch()
            res = []
            try:
                s0 = c16calls.state_snapshot()
                w0 = c16calls.warnings_state()
                for idx in hist:
                    label, call = pool[idx]
                    rec = norm(c16calls.execute(call, str(work)), work)
                    s1 = c16calls.state_snapshot()
                    w1 = c16calls.warnings_state()
                    res.append({"label": label, "rec": rec, "state_changed": [k for k in s0 if s0[k] != s1[k]], "warnings_changed": [k for k in w0 if w0[k] != w1[k]]})
            except BaseException as exc:  # noqa: BLE001
                res.append({"harness_error": repr(exc)})
            finally:
                shutil.rmtree(work, ignore_errors=True)
            with os.fdopen(w, "w") as fh:
                json.dump(res, fh)
            os._exit(0)
        os.close(w)
        with os.fdopen(r) as fh:
            res = json.load(fh)
        os.waitpid(pid, 0)
        part.count()
        labels = [pool[i][0] for i in hist]
        part.nontrivial(repr(hist))
        for step, item in enumerate(res):
            if "harness_error" in item:
                raise RuntimeError(item["harness_error"])
            info = {"history": labels[: step + 1]}
            want = base[item["label"]]
            if item["rec"] != want:
                # the culprit is the earliest earlier call whose removal restores the result; report the pair
                part.violation("history", f"result-depends-on-history:{item['label']}:after:{labels[step - 1] if step else 'nothing'}", info,
                               f"{item['label']} after {labels[:step]}: {json.dumps(item['rec'])[:300]} but alone in a fresh interpreter: {json.dumps(want)[:300]}")
            else:
                part.outcome("result", "same-as-fresh-interpreter")
            if item["state_changed"]:
                part.violation("tables", f"module-table-modified:{','.join(item['state_changed'])}:by:{item['label']}", info, f"{item['label']} changed {item['state_changed']}")
                break
            if item["warnings_changed"]:
                part.violation("tables", f"warnings-state-modified:{','.join(item['warnings_changed'])}:by:{item['label']}", info, f"{item['label']} left {item['warnings_changed']} changed")
                break
        else:
            part.outcome("state", "initial-state-preserved")
    return part.result()


# ---- threads ---------------------------------------------------------------------------------------------

class WarningHook:
    """Process-wide recorder of re-issued warnings, attributed to the thread that emitted them.

    The harness must not use warnings.catch_warnings inside the threads (it is itself not re-entrant and would
    interfere with the code under test), so one permissive filter and one showwarning hook are installed once.
    """

    def __enter__(self):
        import threading

        self._threading = threading
        self.records = {}
        self._filters = list(warnings.filters)
        self._show = warnings.showwarning
        warnings.resetwarnings()
        warnings.simplefilter("always")

        def hook(message, category, filename, lineno, file=None, line=None):
            self.records.setdefault(threading.get_ident(), []).append(f"{category.__name__}:{message}")

        self.hook = hook
        warnings.showwarning = hook
        self.impl = warnings._showwarnmsg_impl
        self.reference = list(warnings.filters)
        return self

    def machinery_intact(self):
        out = []
        if warnings.showwarning is not self.hook:
            out.append("showwarning")
        if warnings._showwarnmsg_impl is not self.impl:
            out.append("_showwarnmsg_impl")
        if list(warnings.filters) != self.reference:
            out.append("filters")
        return out

    def repair(self):
        warnings.showwarning = self.hook
        warnings._showwarnmsg_impl = self.impl
        warnings.filters[:] = list(self.reference)
        if hasattr(warnings, "_filters_mutated"):
            warnings._filters_mutated()

    def __exit__(self, *exc):
        warnings.showwarning = self._show
        warnings._showwarnmsg_impl = self.impl
        warnings.filters[:] = self._filters
        if hasattr(warnings, "_filters_mutated"):
            warnings._filters_mutated()


def thread_pool(work):
    """Cheap calls for the thread exploration: (label, callable(workdir) -> digest)."""
    from mc.core import CORPUS

    def load(fn):
        def call(w):
            from iodata import load_one

            return c16calls.digest_obj(load_one(str(CORPUS / fn)))

        return call

    def dump_xyz(w):
        import numpy as np
        from iodata import IOData, dump_one

        d = IOData(atnums=np.array([8, 1, 1]), atcoords=np.array([[0.0, 0, 0], [0, 1.5, 0], [0, 0, 1.5]]), title="t")
        path = os.path.join(w, "t.xyz")
        dump_one(d, path)
        with open(path) as fh:
            return fh.read()

    def truncated(w):
        from iodata import load_one

        p = os.path.join(w, "cut.xyz")
        with open(p, "w") as fh:
            fh.write("3\ntitle\nO 0 0 0\n")
        load_one(p)

    return [("load_one:water.xyz", load("water.xyz")), ("load_one:water_single_no_end.pdb(warns)", load("water_single_no_end.pdb")), ("dump_one:xyz", dump_xyz),
            ("failing:truncated-xyz", truncated), ("load_one:water_single.pdb", load("water_single.pdb")), ("load_one:water_single_model.pdb", load("water_single_model.pdb"))]


def run_plain(call, work, hook):
    import threading

    try:
        out = {"result": call(work)}
    except Exception as exc:  # noqa: BLE001
        out = {"exception": type(exc).__name__, "message": str(exc).replace(work, "<work>")}
    return out


def thread_schedules(ctx):
    """All schedules of 2 (thorough: also 3) API calls with <= 2 preemptions; scheduling points at every line of the
    public-API wrapper and of warnings.catch_warnings.__enter__/__exit__ when called from that wrapper."""
    import threading

    import iodata.api

    inner = iodata.api.load_one.__code__
    enter, exit_ = warnings.catch_warnings.__enter__.__code__, warnings.catch_warnings.__exit__.__code__

    def is_point(frame, event):
        code = frame.f_code
        if code is inner:
            return True
        return (code is enter or code is exit_) and frame.f_back is not None and frame.f_back.f_code is inner

    base_dir = ctx.scratch() / "threads"
    base_dir.mkdir(exist_ok=True)
    tpool = thread_pool(str(base_dir))
    labels = [p[0] for p in tpool]
    npair = 15 if ctx.thorough else 4
    groups = list(itertools.combinations(range(len(tpool)), 2))[:npair]
    if not ctx.thorough:
        groups = [(0, 1), (1, 2), (1, 3), (1, 4)]
    else:
        groups += [(0, 1, 2), (1, 3, 4)]
    cap = 60000 if ctx.thorough else 3000
    total_exec = total_points = 0
    distinct = set()
    with WarningHook() as hook:
        # sequential reference of every thread-pool call (same hook, one thread)
        seq = {}
        for i, (lab, call) in enumerate(tpool):
            w = base_dir / f"seq{i}"
            w.mkdir(exist_ok=True)
            hook.records.clear()
            rec = run_plain(call, str(w), hook)
            rec["warnings"] = sorted(x.replace(str(w), "<work>") for x in hook.records.get(threading.get_ident(), []))
            seq[i] = rec
            if hook.machinery_intact():
                raise SystemExit("HARNESS-ERROR: a single sequential call leaves the warnings machinery changed")
        for group in groups:
            works = []
            for t, idx in enumerate(group):
                w = base_dir / ("g" + "_".join(map(str, group))) / f"t{t}"
                w.mkdir(parents=True, exist_ok=True)
                works.append(str(w))
            idents = {}

            def make_bodies(group=group, works=works, idents=idents):
                hook.records.clear()
                idents.clear()

                def body(t, idx):
                    idents[t] = threading.get_ident()
                    return run_plain(tpool[idx][1], works[t], hook)

                return [lambda t=t, idx=idx: body(t, idx) for t, idx in enumerate(group)]

            def check(x, group=group, works=works, idents=idents):
                nonlocal total_points
                total_points += len(x.points)
                info = {"threads": [labels[i] for i in group], "preemptions": x.preemptions, "schedule": x.trace()[:80]}
                bad = False
                outs = []
                for t, idx in enumerate(group):
                    got = dict(x.results[t]) if t in x.results else {"harness_exception": repr(x.errors.get(t))}
                    got["warnings"] = sorted(m.replace(works[t], "<work>") for m in hook.records.get(idents.get(t), []))
                    want = seq[idx]
                    outs.append(json.dumps(got, sort_keys=True))
                    if got != want:
                        bad = True
                        same_result = {k: v for k, v in got.items() if k != "warnings"} == {k: v for k, v in want.items() if k != "warnings"}
                        kind = "warnings-lost-or-misattributed" if same_result else "result-differs"
                        ctx.violation("threads", f"thread-result:{kind}", info, f"{labels[idx]} interleaved with {[labels[i] for i in group if i != idx]}: {json.dumps(got)[:220]} vs alone {json.dumps(want)[:220]}")
                broken = hook.machinery_intact()
                if broken:
                    bad = True
                    ctx.violation("threads", "warnings-machinery-not-restored", info,
                                  f"after all threads finished {broken} differ from before: overlapping catch_warnings blocks of the API wrapper restore each other's saved state (later warnings are lost)")
                    hook.repair()
                distinct.add(tuple(outs) + (tuple(broken),))
                ctx.outcome("threads", f"preemptions={x.preemptions}:" + ("as-sequential" if not bad else "DIFFERS"))

            ex = se.Explorer(make_bodies, is_point, bound=2, max_executions=cap)
            ex.explore(check)
            total_exec += ex.executions
            ctx.count(ex.executions)
            ctx.nontrivial(("threads", group))
            if ex.capped:
                ctx.notes.append(f"thread group {[labels[i] for i in group]}: exploration capped at {ex.executions} executions")
            a, b = ex.run([]), ex.run([])
            hook.repair()
            if a.trace() != b.trace():
                raise SystemExit("HARNESS-ERROR: replaying the same schedule gave different scheduling points")
            if len(ctx.samples) < 3:
                ctx.sample({"threads": [labels[i] for i in group], "default_schedule": a.trace()[:12], "executions": ex.executions})
    ctx.cov.update(thread_groups=len(groups), thread_executions=total_exec, thread_scheduling_points=total_points, thread_distinct_outcomes=len(distinct), preemption_bound=2)


def interleave_worker(chunk, seed, tier):
    """Two (or three) partially consumed load_many iterators advanced in every interleaving of their steps."""
    from iodata import load_many, load_one
    from mc.core import Part, make_scratch
    from props import c13

    part = Part(seed, tier)
    tmp = make_scratch()
    try:
        files = {}
        for fmt, fname in c13.READ_FORMATS.items():
            texts = c13.read_menu(fmt)
            for tag, seq in (("A", (0, 1, 2)), ("B", (3, 4, 1))):
                path = str(tmp / f"{tag}_{fname}")
                with open(path, "w") as fh:
                    fh.write("".join(texts[k] for k in seq))
                files[(fmt, tag)] = path
            path = str(tmp / f"S_{fname}")
            with open(path, "w") as fh:
                fh.write(texts[0])
            files[(fmt, "S")] = path

        def alone(key):
            with warnings.catch_warnings():
                warnings.simplefilter("ignore")
                return [c16calls.digest_obj(o) for o in load_many(files[key])]

        ref = {}
        for (fa, fb), order in chunk:
            part.count()
            keys = [(fa, "A"), (fb, "B")]
            for k in keys:
                if k not in ref:
                    ref[k] = alone(k)
            info = {"files": [f"{k[0]}:{k[1]}" for k in keys], "order": "".join("AB?"[i] for i in order)}
            part.nontrivial(repr(info))
            got = [[], []]
            problem = None
            with warnings.catch_warnings():
                warnings.simplefilter("ignore")
                its = [load_many(files[k]) for k in keys]
                done = [False, False]
                for who in order:
                    if who == 2:
                        # an unrelated complete call between two steps
                        try:
                            load_one(files[(fa, "S")])
                        except Exception as exc:  # noqa: BLE001
                            problem = f"load_one between the steps raised {exc!r}"
                        continue
                    if done[who]:
                        continue
                    try:
                        got[who].append(c16calls.digest_obj(next(its[who])))
                    except StopIteration:
                        done[who] = True
                    except Exception as exc:  # noqa: BLE001
                        done[who] = True
                        problem = f"iterator {who} raised {exc!r} caused by {exc.__cause__!r}"
                for i in (0, 1):  # drain
                    if not done[i]:
                        try:
                            got[i] += [c16calls.digest_obj(o) for o in its[i]]
                        except Exception as exc:  # noqa: BLE001
                            problem = f"iterator {i} raised {exc!r} when drained"
            ok = problem is None and got[0] == ref[keys[0]] and got[1] == ref[keys[1]]
            part.outcome("interleaved-iterators", "as-alone" if ok else "DIFFERS")
            if not ok:
                part.violation("interleaving", f"interleaved-load_many:{fa}+{fb}:frames-differ-from-alone", info,
                               f"load_many({fa}) and load_many({fb}) advanced in the order {info['order']}: {problem or ''} frames {[len(g) for g in got]} vs alone {[len(ref[k]) for k in keys]}"
                               f"{'' if problem else ' (same count, different content)' if [len(g) for g in got] == [len(ref[k]) for k in keys] else ''}")
    finally:
        shutil.rmtree(tmp, ignore_errors=True)
    return part.result()


def interleaved_iterators(ctx):
    """Sequential interleaving: every order of the steps of two frame iterators (4 steps each incl. the exhausting one),
    same-format and cross-format, optionally with one unrelated load_one between two steps."""
    from mc.pool import pmap
    from props import c13

    fmts = list(c13.READ_FORMATS)
    pairs = [(a, b) for i, a in enumerate(fmts) for b in fmts[i:]]
    orders = sorted(set(itertools.permutations([0] * 4 + [1] * 4)))
    jobs = [(pr, o) for pr in pairs for o in orders]
    # one unrelated call inserted at every position of the three 'extreme' orders
    for pr in pairs:
        for base in ((0, 1) * 4, (0, 0, 1, 1) * 2, (0,) * 2 + (1,) * 4 + (0,) * 2):
            for pos in range(1, 8):
                jobs.append((pr, base[:pos] + (2,) + base[pos:]))
    pmap(ctx, interleave_worker, jobs, chunk=128)
    ctx.cov.update(interleaved_iterator_pairs=len(pairs), interleaved_iterator_orders=len(jobs))


def watch_worker(chunk, seed, tier):
    """Module tables must be unmodified at every moment of every call, not only afterwards: each pool call runs (in a forked
    child) under a line tracer that fingerprints the tables at the first visit of every line of iodata code."""
    import iodata
    from mc.core import Part

    part = Part(seed, tier)
    pool = c16calls.build_pool()
    root = os.path.dirname(os.path.abspath(iodata.__file__))
    for idx in chunk:
        label, call = pool[idx]
        r, w = os.pipe()
        pid = os.fork()
        if pid == 0:
            os.close(r)
            work = make_scratch()
            out = {"checked": 0, "modified_at": None}
            try:
                base = c16calls.tables_fingerprint()
                seen = set()

                def local(frame, event, arg):
                    if event == "line" and out["modified_at"] is None:
                        key = (frame.f_code, frame.f_lineno)
                        if key not in seen:
                            seen.add(key)
                            out["checked"] += 1
                            if c16calls.tables_fingerprint() != base:
                                out["modified_at"] = f"{os.path.basename(frame.f_code.co_filename)}:{frame.f_code.co_name}:{frame.f_lineno}"
                    return local

                def tracer(frame, event, arg):
                    fn = frame.f_code.co_filename
                    return local if (fn.startswith(root) and "/test/" not in fn) else None

                sys.settrace(tracer)
                try:
                    c16calls.execute(call, str(work))
                finally:
                    sys.settrace(None)
            except BaseException as exc:  # noqa: BLE001
                out["harness_error"] = repr(exc)
            finally:
                shutil.rmtree(work, ignore_errors=True)
            with os.fdopen(w, "w") as fh:
                json.dump(out, fh)
            os._exit(0)
        os.close(w)
        with os.fdopen(r) as fh:
            out = json.load(fh)
        os.waitpid(pid, 0)
        if "harness_error" in out:
            raise RuntimeError(out["harness_error"])
        part.count()
        part.nontrivial(("watch", label))
        part.cov["watch_points"] = part.cov.get("watch_points", 0) + out["checked"]
        part.outcome("tables-during-call", "never-modified" if out["modified_at"] is None else "MODIFIED")
        if out["modified_at"] is not None:
            part.violation("tables", f"module-table-modified-during-call:{label}", {"call": label, "first_seen_at": out["modified_at"]},
                           f"{label}: a module-level table differs from its initial content while the call is in progress (first seen at {out['modified_at']})")
    return part.result()


def watch_tables(ctx, npool):
    from mc.pool import pmap

    pmap(ctx, watch_worker, list(range(npool)), chunk=4)


def fault_history_worker(chunk, seed, tier):
    """A damaged sibling of a file must be judged the same whether or not the intact file was loaded before (in a forked
    child each, so nothing else is in the history): validation results must not be remembered across calls."""
    import pickle

    from iodata import load_one
    from mc import fe
    from mc.core import CORPUS, Part, make_scratch

    part = Part(seed, tier)
    tmp = make_scratch()

    def outcome_in_child(paths, fmt):
        r, w = os.pipe()
        pid = os.fork()
        if pid == 0:
            code = 0
            try:
                os.close(r)
                res = None
                with warnings.catch_warnings():
                    warnings.simplefilter("ignore")
                    for p in paths:
                        try:
                            res = ("ok", c16calls.digest_obj(load_one(p, fmt=fmt)))
                        except Exception as exc:  # noqa: BLE001
                            res = ("exc", type(exc).__name__, str(exc).replace(os.path.dirname(p), "<dir>")[:200])
                with os.fdopen(w, "wb") as fh:
                    pickle.dump(res, fh)
            except BaseException:  # noqa: BLE001
                code = 1
            finally:
                os._exit(code)
        os.close(w)
        with os.fdopen(r, "rb") as fh:
            data = fh.read()
        os.waitpid(pid, 0)
        return pickle.loads(data) if data else ("child-failed",)

    try:
        for fn, fmt, key, mutated in chunk:
            part.count()
            good = str(tmp / ("good_" + fn))
            bad = str(tmp / ("bad_" + fn))
            with open(good, "w") as fh:
                fh.write((CORPUS / fn).read_text())
            with open(bad, "w") as fh:
                fh.write(mutated)
            alone = outcome_in_child([bad], fmt)
            after = outcome_in_child([good, bad], fmt)
            info = {"file": fn, "fault": list(key)}
            part.nontrivial(("fault-history", fn, key))
            same = alone == after
            part.outcome("fault-history", ("same:" + alone[0]) if same else "DEPENDS-ON-HISTORY")
            if not same:
                part.violation("interleaving", f"damaged-file-outcome-depends-on-earlier-load:{fn}", info,
                               f"{fn} with {key} loaded alone gives {alone}, loaded right after the intact file gives {after}")
    finally:
        shutil.rmtree(tmp, ignore_errors=True)
    return part.result()


def fault_history(ctx):
    from mc import fe
    from mc.core import CORPUS
    from mc.pool import pmap

    files = [("h2o_sto3g.wfn", None), ("h2_ub3lyp_ccpvtz.wfx", None), ("h2o_sto3g.fchk", None), ("h2_sto3g.mkl", None)]
    if ctx.thorough:
        files += [("h2o.molden.input", None), ("ch3_hf_sto3g_fchk_multiwfn3.7.mwfn", None), ("water.mol2", None), ("example.sdf", None), ("water_single.pdb", None),
                  ("cubegen_h2o_5points.cube", None), ("FCIDUMP.molpro.h2", None), ("LiCl_molecule.json", "json_qcschema")]
    jobs = []
    for fn, fmt in files:
        text = (CORPUS / fn).read_text()
        muts = list(fe.token_substitutions(text, menu=["SCALE", "INC1"], max_tokens=None if ctx.thorough else 400))
        if not ctx.thorough:
            muts = muts[:: max(1, len(muts) // 150)]
        jobs += [(fn, fmt, key, m) for key, m in muts]
    pmap(ctx, fault_history_worker, jobs, chunk=16)
    ctx.cov.update(fault_history_files=[f for f, _ in files], fault_history_mutations=len(jobs))


def same_arguments_worker(chunk, seed, tier):
    """One argument object handed to several calls in a row: every call must produce what it produces for a freshly
    built equal object (the earlier calls are history, the object is the argument)."""
    import hashlib

    from iodata import dump_one
    from mc.core import Part, make_scratch
    from props import roundtrip, wfn

    part = Part(seed, tier)
    tmp = make_scratch()

    def build(kind, name, variant):
        if kind == "spec":
            spec = roundtrip.all_specs()[name]
            case = {n: m[0] for n, m in spec.space}
            obj, dkw, _ = spec.build(case, 0)
            return obj, spec.fname, spec.fmt, dkw
        case = {n: m[0] for n, m in wfn.SPACE}
        case.update(variant)
        obj, _ = wfn.build(case, name, 0)
        return obj, wfn.TARGETS[name], None, {}

    def write(obj, fname, fmt, dkw, tag):
        path = str(tmp / f"{tag}_{fname}")
        with warnings.catch_warnings():
            warnings.simplefilter("ignore")
            try:
                dump_one(obj, path, fmt=fmt, allow_changes=True, **dkw)
            except Exception as exc:  # noqa: BLE001
                return ("exc", type(exc).__name__)
        with open(path, "rb") as fh:
            return ("ok", hashlib.blake2b(fh.read(), digest_size=12).hexdigest())

    try:
        for kind, name, variant, other in chunk:
            part.count()
            info = {"call": f"dump_one:{name}", "variant": variant, "call_in_between": other and f"dump_one:{other[1]}"}
            part.nontrivial(repr(info))
            try:
                obj, fname, fmt, dkw = build(kind, name, variant)
                fresh = write(build(kind, name, variant)[0], fname, fmt, dkw, "fresh")
            except wfn.Infeasible:
                part.outcome("same-arguments", "infeasible")
                continue
            results = [write(obj, fname, fmt, dkw, "a")]
            if other is not None:
                o2 = build(*other[:3])
                write(obj, o2[1], o2[2], o2[3], "between")
            results.append(write(obj, fname, fmt, dkw, "b"))
            results.append(write(obj, fname, fmt, dkw, "c"))
            same = all(r == fresh for r in results)
            part.outcome("same-arguments", "identical:" + fresh[0] if same else "DEPENDS-ON-HISTORY")
            if not same:
                part.violation("sequence", f"same-argument-object:{name}:result-changes-with-repetition", info,
                               f"dump_one:{name} {variant}: fresh object {fresh}; the same object written 3 times{' with ' + other[1] + ' in between' if other else ''}: {results}")
    finally:
        shutil.rmtree(tmp, ignore_errors=True)
    return part.result()


def same_arguments(ctx):
    from mc.pool import pmap
    from props import roundtrip, wfn

    jobs = [("spec", name, {}, None) for name in roundtrip.all_specs()]
    orders = ("interleaved", "reversed") if not ctx.thorough else dict(wfn.SPACE)["shell_order"]
    convs = ("own", "horton2", "scr1") if not ctx.thorough else dict(wfn.SPACE)["conventions"]
    cons = ("segmented", "gen-pd") if not ctx.thorough else dict(wfn.SPACE)["contraction"]
    for target in wfn.TARGETS:
        for so in orders:
            for cv in convs:
                for cn in cons:
                    v = dict(shell_order=so, conventions=cv, contraction=cn, shellset="+d-cart")
                    jobs.append(("wf", target, v, None))
                    for t2 in wfn.TARGETS:
                        if t2 != target and (ctx.thorough or cn == "segmented"):
                            jobs.append(("wf", target, v, ("wf", t2, v)))
    pmap(ctx, same_arguments_worker, jobs, chunk=8)
    ctx.cov.update(same_argument_cases=len(jobs))


PROBE_FILES = [("h2o_sto3g.fchk", None), ("water_sto3g_hf.wfx", None), ("h2o_sto3g.wfn", None), ("water.mol2", None)]


def history_probes(thorough):
    """Damaged files that only late consistency checks can reject (a row missing from a table, a counter off by one)."""
    from mc import fe
    from mc.core import CORPUS

    out = []
    for fn, fmt in PROBE_FILES:
        text = (CORPUS / fn).read_text()
        muts = list(fe.table_row_deletions(text)) + [(k, m) for k, m in fe.token_substitutions(text, menu=["DEC1"], max_tokens=150 if thorough else 60)]
        if not thorough:
            muts = muts[:: max(1, len(muts) // 20)]
        out += [(fn, fmt, key, m) for key, m in muts]
    return out


def failed_load_history_worker(chunk, seed, tier):
    """The outcome of loading each probe must be the same in a process that has just had a load of a damaged file F
    (whatever F's own outcome) as in a process without it: a failing load must leave nothing behind."""
    import pickle

    from iodata import load_one
    from mc.core import Part, make_scratch

    part = Part(seed, tier)
    tmp = make_scratch()
    probes = history_probes(tier == "thorough")
    ppaths = []
    for i, (fn, fmt, _key, text) in enumerate(probes):
        path = str(tmp / f"probe{i:03d}_{fn}")
        with open(path, "w") as fh:
            fh.write(text)
        ppaths.append((path, fmt))

    def one(path, fmt):
        try:
            return ("ok", c16calls.digest_obj(load_one(path, fmt=fmt)))
        except Exception as exc:  # noqa: BLE001
            return ("exc", type(exc).__name__, str(exc).replace(os.path.dirname(path), "<dir>")[:200])

    def in_child(first):
        r, w = os.pipe()
        pid = os.fork()
        if pid == 0:
            code = 0
            try:
                os.close(r)
                with warnings.catch_warnings():
                    warnings.simplefilter("ignore")
                    res = [one(*first)] if first else [None]
                    res += [one(pp, pf) for pp, pf in ppaths]
                with os.fdopen(w, "wb") as fh:
                    pickle.dump(res, fh)
            except BaseException:  # noqa: BLE001
                code = 1
            finally:
                os._exit(code)
        os.close(w)
        with os.fdopen(r, "rb") as fh:
            data = fh.read()
        os.waitpid(pid, 0)
        return pickle.loads(data) if data else None

    try:
        base = in_child(None)
        for fn, fmt, key, mutated in chunk:
            part.count()
            bad = str(tmp / ("bad_" + fn))
            with open(bad, "w") as fh:
                fh.write(mutated)
            got = in_child((bad, fmt))
            info = {"file": fn, "fault": list(key)}
            part.nontrivial(("failed-load-history", fn, key))
            if base is None or got is None:
                part.violation("interleaving", f"failed-load-history:child-died:{fn}", info, f"child process died ({fn} {key})")
                continue
            diff = [i for i in range(len(probes)) if base[i + 1] != got[i + 1]]
            part.outcome("failed-load-history", "same:" + got[0][0] + (":" + got[0][1] if got[0][0] == "exc" else "") if not diff else "DEPENDS-ON-HISTORY")
            if diff:
                i = diff[0]
                part.violation("interleaving", f"outcome-depends-on-earlier-failed-load:{fn}", info,
                               f"after a load of {fn} damaged by {key} (outcome {got[0]}), {len(diff)} of {len(probes)} damaged probe files are judged differently; "
                               f"first: {probes[i][0]} {probes[i][2]}: alone {base[i + 1]}, afterwards {got[i + 1]}")
    finally:
        shutil.rmtree(tmp, ignore_errors=True)
    return part.result()


def failed_load_history(ctx):
    from mc import fe
    from mc.core import CORPUS
    from mc.pool import pmap

    files = [("h2o_sto3g.wfn", None), ("water_sto3g_hf.wfx", None), ("h2o_sto3g.fchk", None), ("h2o.molden.input", None)]
    if ctx.thorough:
        files += [("h2_sto3g.mkl", None), ("ch3_hf_sto3g_fchk_multiwfn3.7.mwfn", None), ("water.mol2", None), ("water_single.pdb", None)]
    jobs = []
    for fn, fmt in files:
        text = (CORPUS / fn).read_text()
        muts = list(fe.token_substitutions(text, menu=["abc", "INC1", "ZERO"], max_tokens=None if ctx.thorough else 300)) + list(fe.line_edits(text) if len(text.splitlines()) < 400 else [])
        cap = 400 if ctx.thorough else 120  # every n-th damaged sibling beyond this many per file (the count is in the evidence)
        muts = muts[:: max(1, len(muts) // cap)]
        jobs += [(fn, fmt, key, m) for key, m in muts]
    pmap(ctx, failed_load_history_worker, jobs, chunk=24)
    ctx.cov.update(failed_load_history_files=[f for f, _ in files], failed_load_history_mutations=len(jobs), failed_load_history_probes=len(history_probes(ctx.thorough)))


def dense_pairs():
    from mc.core import CORPUS

    def load(fn, fmt=None):
        def call(w):
            from iodata import load_one

            return c16calls.digest_obj(load_one(str(CORPUS / fn), fmt=fmt))

        return call

    def load_many_(fn):
        def call(w):
            from iodata import load_many

            return [c16calls.digest_obj(o) for o in load_many(str(CORPUS / fn))]

        return call

    def dump(name, variant):
        def call(w):
            from iodata import dump_one
            from props import roundtrip

            spec = roundtrip.all_specs()[name]
            case = {n: m[0] for n, m in spec.space}
            if "natom" in case:
                case["natom"] = 3 if variant == 0 else 9
            if "title" in case:
                case["title"] = ["T", "water molecule"][variant]
            obj, dkw, _ = spec.build(case, variant)
            path = os.path.join(w, f"v{variant}_" + spec.fname)
            dump_one(obj, path, fmt=spec.fmt, **dkw)
            with open(path) as fh:
                return fh.read()

        return call

    pairs = [
        ("xyz load/load", load("water.xyz"), load("water_element.xyz")), ("pdb load/load", load("water_single.pdb"), load("water_single_model.pdb")),
        ("sdf load/load", load("example.sdf"), load("formamide.sdf")), ("mol2 load/load", load("water.mol2"), load("silioh3.mol2")),
        ("gro load/load", load("water.gro"), load("water2.gro")), ("xyz dump/dump", dump("xyz", 0), dump("xyz", 1)), ("pdb dump/dump", dump("pdb", 0), dump("pdb", 1)),
        ("sdf dump/dump", dump("sdf", 0), dump("sdf", 1)), ("mol2 dump/dump", dump("mol2", 0), dump("mol2", 1)), ("xyz load/dump", load("water.xyz"), dump("xyz", 1)),
        ("xyz load_many/load_many", load_many_("water_trajectory.xyz"), load_many_("water_trajectory.xyz")),
    ]
    heavy = [
        ("fchk load/load", load("h2o_sto3g.fchk"), load("hf_sto3g.fchk")), ("wfn load/load", load("he_s_orbital.wfn"), load("he_sp_orbital.wfn")),
        ("cube load/load", load("cubegen_h2o_5points.cube"), load("cubegen_nh3_7points.cube")), ("poscar load/load", load("POSCAR.water"), load("POSCAR.cubicbn_direct")),
        ("json load/load", load("LiCl_molecule.json", "json_qcschema"), load("Hydroxyl_radical_molecule.json", "json_qcschema")), ("fcidump load/load", load("FCIDUMP.psi4.h2"), load("FCIDUMP.molpro.h2")),
        ("fchk dump/dump", dump("fchk", 0), dump("fchk", 1)), ("molden dump/dump", dump("molden", 0), dump("molden", 1)), ("wfn dump/dump", dump("wfn", 0), dump("wfn", 1)),
        ("cube dump/dump", dump("cube", 0), dump("cube", 1)), ("json dump/dump", dump("json_qcschema", 0), dump("json_qcschema", 1)),
    ]
    return pairs, heavy


DENSE_QUICK = ("xyz load/load", "wfn load/load", "mol2 load/load", "xyz dump/dump", "xyz load_many/load_many")
DENSE_VISIT_CAP = {"quick": 2, "thorough": 4}


def dense_worker(chunk, seed, tier):
    """Two threads using the SAME format module on distinct data; a scheduling point at every line of iodata code (the first
    DENSE_VISIT_CAP visits of each line per thread); all schedules with at most one preemption."""
    import iodata
    from mc.core import Part, make_scratch

    part = Part(seed, tier)
    root = os.path.dirname(os.path.abspath(iodata.__file__))

    def is_point(frame, event):
        fn = frame.f_code.co_filename
        return fn.startswith(root) and "/test/" not in fn

    allpairs = {p[0]: p for group in dense_pairs() for p in group}
    base_dir = make_scratch()
    total = npoints = 0
    try:
        with WarningHook() as hook:
            for label in chunk:
                bound2 = label.endswith("@2")  # two preemptions, every line visited once per thread as a scheduling point
                label = label[:-2] if bound2 else label
                _, call_a, call_b = allpairs[label]
                works = []
                for t in range(2):
                    w = base_dir / (label.replace(" ", "_").replace("/", "-")) / f"t{t}"
                    w.mkdir(parents=True, exist_ok=True)
                    works.append(str(w))
                alone = [run_plain(call_a, works[0], hook), run_plain(call_b, works[1], hook)]
                hook.repair()

                def make_bodies(call_a=call_a, call_b=call_b, works=works):
                    return [lambda: run_plain(call_a, works[0], hook), lambda: run_plain(call_b, works[1], hook)]

                def check(x, label=label, alone=alone):
                    nonlocal npoints
                    npoints += len(x.points)
                    bad = False
                    for t in (0, 1):
                        got = x.results.get(t) if t not in x.errors else {"harness_exception": repr(x.errors[t])}
                        if got != alone[t]:
                            bad = True
                            where = [p["where"] for p, c in zip(x.points, x.choices) if p["running_enabled"] and p["enabled"][c] != p["running"]]
                            site = where[0].split(":", 1)[1].rsplit(":", 1)[0] if where else "?"
                            part.violation("threads", f"thread-result-differs:{label}:preempted-in:{site}", {"pair": label, "preempted_at": where, "thread": t},
                                           f"{label}: thread {t} returns {json.dumps(got)[:160]} when preempted at {where}, alone it returns {json.dumps(alone[t])[:160]}")
                    if hook.machinery_intact():
                        hook.repair()  # judged by the first thread pass (known finding); not counted here
                    part.outcome("threads-dense", "as-alone" if not bad else "DIFFERS")

                if bound2:
                    ex = se.Explorer(make_bodies, is_point, bound=2, max_executions=60000 if tier == "thorough" else 12000, visit_cap=1)
                    label = label + " (2 preemptions)"
                else:
                    ex = se.Explorer(make_bodies, is_point, bound=1, max_executions=40000 if tier == "thorough" else 8000, visit_cap=DENSE_VISIT_CAP[tier])
                ex.explore(check)
                total += ex.executions
                part.count(ex.executions)
                part.nontrivial(("threads-dense", label))
                if ex.capped:
                    part.cov["dense_pairs_capped"] = part.cov.get("dense_pairs_capped", 0) + 1
                hook.repair()
        part.cov["dense_thread_executions"] = total
        part.cov["dense_thread_scheduling_points"] = npoints
    finally:
        shutil.rmtree(base_dir, ignore_errors=True)
    return part.result()


def dense_thread_pass(ctx):
    from mc.pool import pmap

    pairs, heavy = dense_pairs()
    labels = [p[0] for p in pairs + heavy]
    if not ctx.thorough:
        labels = [lab for lab in labels if lab in DENSE_QUICK]
    labels = ["xyz dump/dump@2"] + (["xyz load/load@2", "sdf dump/dump@2"] if ctx.thorough else []) + labels
    pmap(ctx, dense_worker, labels, chunk=1)
    ctx.cov.update(dense_thread_pairs=labels, dense_preemption_bound=1, dense_visit_cap=DENSE_VISIT_CAP[ctx.tier])


def run(ctx):
    from mc.pool import pmap

    pool = c16calls.build_pool()
    base = baselines(ctx, pool)
    n = len(pool)
    # ESB: depth 1 = every call from the initial state; depth 2 = every ordered pair (incl. repetition)
    hists = [((i,), base) for i in range(n)] + [((i, j), base) for i in range(n) for j in range(n)]
    if ctx.thorough:
        sub = [i for i, (lab, _) in enumerate(pool) if lab.startswith(("dump_one:wfx", "dump_one:xyz", "failing:ghost", "load_one:h2o.molden", "load_one:water.xyz", "write_input:gaussian", "dump_one:json", "load_one:LiCl"))]
        hists += [(h, base) for h in itertools.product(sub, repeat=3)]
    pmap(ctx, seq_worker, hists, chunk=8)
    states = 1 + len({v.sig for v in ctx.violations if v.clause == "tables"})
    ctx.cov.update(pool_calls=n, histories=len(hists), states=states, transitions=sum(len(h[0]) for h in hists),
                   traces_validated_against_impl=len(hists), depth_completed=3 if ctx.thorough else 2)
    watch_tables(ctx, n)
    interleaved_iterators(ctx)
    fault_history(ctx)
    failed_load_history(ctx)
    same_arguments(ctx)
    thread_schedules(ctx)
    dense_thread_pass(ctx)
    ctx.evaluations += 0
    ctx.exhaustive = True
    ctx.sample({"history": [pool[46][0] if n > 46 else pool[0][0], pool[-5][0]]})
    ctx.rule = (
        f"sequential: every pool call ({n} calls: load_one/load_many/dump_one/dump_many/write_input per format on corpus or generated data, incl. failing calls and ghost atoms) and every ordered pair "
        "(thorough: all triples of a 10-call sub-pool) executed from the initial interpreter state (forked child per history); each step's result (object/file digest, exception type+message, warnings) must "
        "equal the same call alone in a fresh interpreter, and the snapshot of all module-level tables + warnings machinery must stay the initial one (one state, |pool| self-loops proves order independence); "
        "additionally every call runs once under a line tracer that fingerprints the tables at the first visit of every line of iodata code (a table patched only for the duration of a call is a modification). "
        "threads: all schedules with <= 2 preemptions of every pair (thorough: also triples) from a 6-call sub-pool, scheduling points at every line of the public-API wrapper and of "
        "warnings.catch_warnings.__enter__/__exit__; second pass: two threads using the same format module on distinct data (5 pairs quick, 22 thorough) with a scheduling point at every line of iodata code (first 2 / 4 visits of each line per thread) and all schedules with <= 1 preemption; for xyz dump/dump (thorough: also xyz load/load, sdf dump/dump) all schedules with <= 2 preemptions over the first visit of each line. "
        "interleaved iterators: every order of the 4+4 steps of two load_many iterators (21 same-/cross-format pairs of XYZ, SDF, MOL2, PDB, GRO, extXYZ trajectories from independent writers), "
        "plus one unrelated load_one inserted at every position of three orders; every frame must equal the frame obtained when the iterator runs alone. "
        "fault history: for 4 (thorough: 12) corpus files every numeric token scaled / every integer token incremented (quick: ~150 per file); the damaged file must give the same outcome "
        "in a fresh child process as in a child that loaded the intact file first. "
        "failed-load history: for every damaged sibling F (token -> text / +1 / 0, every line deleted / duplicated / swapped; every n-th so that ~120 (thorough: ~400) remain per file) of 4 (thorough: 8) wavefunction files, a child process loads F "
        "and then a fixed menu of damaged probe files that only late consistency checks can reject (a row missing from every table, every counter decremented; FCHK, WFX, WFN, MOL2); every probe outcome must equal "
        "its outcome in a child without F. "
        "same argument object: every writer's default object, and generated wavefunctions (shell order x conventions x contraction) per wavefunction format, written three times in a row "
        "(also with a dump to each other wavefunction format in between); every file must equal the file of a freshly built equal object."
    )
    ctx.assumptions += ["thread exploration: scheduling points only where process-global state is touched (API wrapper, catch_warnings); module tables are shown read-only by the sequential part",
                        "results are compared through deep bit-exact snapshots / file digests"]


def replay(ctx, payload):
    run(ctx)
    ctx.violations = [v for v in ctx.violations if v.sig == payload["signature"]]
