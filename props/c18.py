"""C18 - the command-line converter does exactly what the API does (full product of inputs x targets x option sets)."""

from __future__ import annotations

import itertools
import os
import shutil
import subprocess
import sys
import warnings

import numpy as np

from mc.core import CORPUS
from props import c07, roundtrip

LEVEL = "exploration"
SENTINEL = b"old output that a pre-flight rejection must not touch\n"


def targets():
    out = []
    for name, spec in roundtrip.all_specs().items():
        out.append((name, spec.fname.replace("m.", "out.").replace("w.", "out."), spec.fmt))
    return out


def api_reference(infn, outfn, many, infmt, outfmt, allow):
    from iodata import dump_many, dump_one, load_many, load_one

    with warnings.catch_warnings():
        warnings.simplefilter("ignore")
        try:
            if many:
                dump_many(load_many(infn, fmt=infmt), outfn, allow_changes=allow, fmt=outfmt)
            else:
                dump_one(load_one(infn, fmt=infmt), outfn, allow_changes=allow, fmt=outfmt)
        except Exception as exc:  # noqa: BLE001
            return None, exc
    with open(outfn, "rb") as fh:
        return fh.read(), None


class ReturnValue(Exception):
    """main() returned a non-zero value instead of raising: whether that becomes the exit status depends on the entry point."""


def real_exit_status(argv):
    r = subprocess.run([sys.executable, "-m", "iodata", *argv], capture_output=True, text=True, check=False,
                       env={k: v for k, v in os.environ.items()})
    return r.returncode, r.stderr


def cli_main(argv):
    """Run iodata.__main__.main() in-process with the given argv; restore numpy error state afterwards."""
    import iodata.__main__ as m

    old = np.geterr()
    saved = sys.argv
    sys.argv = ["iodata-convert", *argv]
    try:
        with warnings.catch_warnings():
            warnings.simplefilter("ignore")
            rv = m.main()
        if rv not in (None, 0):
            return ReturnValue(rv)
        return None
    except SystemExit as exc:
        return exc if exc.code not in (0, None) else None
    except BaseException as exc:  # noqa: BLE001
        return exc
    finally:
        sys.argv = saved
        np.seterr(**old)


def worker(chunk, seed, tier):
    from mc.core import Part, make_scratch

    part = Part(seed, tier)
    tmp = make_scratch()
    try:
        for origin, fname, infmt_needed, text, tname, outname, outfmt_needed, give_i, give_o, allow, many in chunk:
            from iodata.api import _select_format_module

            part.count()
            inpath = str(tmp / fname)
            with open(inpath, "w") as fh:
                fh.write(text)
            in_mod = _select_format_module(fname, "load_one", infmt_needed).__name__.rsplit(".", 1)[-1]
            infmt = in_mod if (give_i or infmt_needed) else None
            outfmt = tname if (give_o or outfmt_needed) else None
            # when the format is given explicitly, use a neutral output name so the option really decides
            # ("conflict": a name from which another writable format would be inferred - the option must still win)
            conflict = "explicit.sdf" if tname == "xyz" else "explicit.xyz"
            outpath = str(tmp / (conflict if give_o == "conflict" else ("explicit.out" if give_o and not outfmt_needed else outname)))
            os.makedirs(tmp / "ref", exist_ok=True)
            refpath = str(tmp / "ref" / os.path.basename(outpath))
            if os.path.exists(refpath):
                os.remove(refpath)
            info = {"input": fname, "target": tname, "-i": infmt, "-o": outfmt, "-c": allow, "-m": many, **({"output-name": "conflicting"} if give_o == "conflict" else {})}
            part.nontrivial(repr(info))
            if len(part.samples) < 1 and give_i and allow:
                part.sample(info)
            ref_bytes, ref_exc = api_reference(inpath, refpath, many, infmt, outfmt if outfmt else None, allow) if not (give_o and not outfmt_needed) else api_reference(inpath, refpath, many, infmt, outfmt, allow)
            with open(outpath, "wb") as fh:
                fh.write(SENTINEL)
            argv = []
            if infmt:
                argv += ["-i", infmt]
            if outfmt:
                argv += ["--outfmt" if seed % 2 else "-o", outfmt]
            if allow:
                argv += ["-c"]
            if many:
                argv += ["--many" if seed % 2 else "-m"]
            argv += [inpath, outpath]
            exc = cli_main(argv)
            if isinstance(exc, ReturnValue):
                # ask the real entry point what the exit status is
                with open(outpath, "wb") as fh:
                    fh.write(SENTINEL)
                code, _err = real_exit_status(argv)
                exc = None if code == 0 else exc
            if os.path.exists(outpath):
                with open(outpath, "rb") as fh:
                    got = fh.read()
            else:
                got = None
            sig = f"{tname}:-i={bool(infmt)}:-o={bool(outfmt)}:-c={allow}:-m={many}"
            if exc is None:
                if ref_exc is not None:
                    part.outcome("cli", "SUCCESS-WHERE-API-FAILS")
                    part.violation("success", f"cli-succeeds-api-fails:{sig}", info, f"iodata-convert {' '.join(argv[:-2])} {fname} -> {tname}: exit 0 but the API calls raise {ref_exc!r}")
                elif got != ref_bytes:
                    part.outcome("cli", "DIFFERENT-BYTES")
                    part.violation("bytes", f"cli-output-differs:{sig}", info, f"iodata-convert {' '.join(argv[:-2])} {fname} -> {tname}: output differs from the API's ({None if got is None else len(got)} vs {len(ref_bytes)} bytes)")
                else:
                    part.outcome("cli", "identical-bytes")
            else:
                name = type(exc).__name__
                part.outcome("cli", f"error-{name}" + ("" if ref_exc is not None else "(api-ok)"))
                if name in ("PrepareDumpError", "FileFormatError") and got != SENTINEL:
                    part.violation("preserved", f"cli-preflight-{'deletes' if got is None else 'overwrites'}-existing-output:{sig}", info,
                                   f"iodata-convert {fname} -> {tname}: {name} but the existing output file was {'deleted' if got is None else 'modified'}")
                if ref_exc is None and name != "FloatingPointError":
                    part.cov["cli_fails_api_ok"] = part.cov.get("cli_fails_api_ok", 0) + 1
    finally:
        shutil.rmtree(tmp, ignore_errors=True)
    return part.result()


def subprocess_cases(ctx, inputs):
    """A cross-section through a real `python -m iodata` subprocess: exit status, stderr and bytes."""
    tmp = ctx.scratch()
    tg = {t[0]: t for t in targets()}
    runs = []
    for (origin, fname, infmt_needed, text) in inputs:
        for tname in ("xyz", "molden", "fchk", "json_qcschema"):
            runs.append((fname, infmt_needed, text, tname))
    runs = runs[:: max(1, len(runs) // (24 if not ctx.thorough else 120))]
    # damaged inputs: the conversion fails while loading (or, with trajectories, while dumping a later frame)
    for (origin, fname, infmt_needed, text) in inputs:
        if origin == "generated" and fname in ("m.xyz", "m.sdf", "w.molden", "m.cube"):
            lines = text.splitlines(keepends=True)
            runs.append(("damaged_" + fname, infmt_needed, "".join(lines[: max(1, len(lines) // 2)]), "xyz"))
    from iodata.api import _select_format_module

    for fname, infmt_needed, text, tname in runs:
        ctx.count()
        _, outname, outfmt_needed = tg[tname]
        os.makedirs(tmp / "ref", exist_ok=True)
        inpath, outpath, refpath = str(tmp / fname), str(tmp / outname), str(tmp / "ref" / outname)
        with open(inpath, "w") as fh:
            fh.write(text)
        for p in (outpath, refpath):
            if os.path.exists(p):
                os.remove(p)
        in_mod = _select_format_module(fname, "load_one", infmt_needed).__name__.rsplit(".", 1)[-1]
        argv = (["-i", in_mod] if infmt_needed else []) + (["-o", tname] if outfmt_needed else []) + ["-c", inpath, outpath]
        r = subprocess.run([sys.executable, "-m", "iodata", *argv], capture_output=True, text=True, cwd=str(tmp), check=False,
                           env={k: v for k, v in os.environ.items() if k != "PYTHONPATH"} | ({"PYTHONPATH": os.environ["PYTHONPATH"]} if os.environ.get("PYTHONPATH") else {}))
        ref_bytes, ref_exc = api_reference(inpath, refpath, False, in_mod if infmt_needed else None, tname if outfmt_needed else None, True)
        info = {"input": fname, "target": tname, "argv": argv[:-2], "via": "subprocess"}
        ctx.nontrivial(repr(info))
        if r.returncode == 0:
            got = open(outpath, "rb").read() if os.path.exists(outpath) else None
            if ref_exc is not None or got != ref_bytes:
                ctx.violation("bytes", f"subprocess:exit0-but-differs:{tname}", info, f"python -m iodata {' '.join(argv[:-2])} {fname}: exit 0, API: {ref_exc!r}, bytes equal: {got == ref_bytes}")
            else:
                ctx.outcome("subprocess", "exit0-identical")
        else:
            ctx.outcome("subprocess", "nonzero-with-message" if r.stderr.strip() else "NONZERO-SILENT")
            if not r.stderr.strip():
                ctx.violation("message", f"subprocess:nonzero-without-message:{tname}", info, f"exit {r.returncode} without any message")
            if ref_exc is None and "FloatingPointError" not in r.stderr:
                ctx.cov["subprocess_fails_api_ok"] = ctx.cov.get("subprocess_fails_api_ok", 0) + 1


def run(ctx):
    from mc.pool import pmap

    gen = c07.generated_files(ctx.seed)
    corpus = [c for c in c07.corpus_files() if len(c[3]) <= (25_000 if not ctx.thorough else 400_000)]
    if not ctx.thorough:
        corpus = corpus[::3]
    # a trajectory whose name suggests another readable format than the one given with -i (plain XYZ would take the force columns for positions)
    ext = "".join(f"2\nProperties=species:S:1:force:R:3:pos:R:3 energy={-1.5 - k}\nO {0.01 * k:.8f} 0.02000000 -0.03000000 {0.1 * k:.8f} 0.00000000 0.25000000\nH -0.01000000 0.00000000 0.03000000 0.00000000 {0.9 + 0.1 * k:.8f} -0.50000000\n" for k in range(3))
    gen = gen + [("generated", "forces_first.xyz", "extxyz", ext)]
    inputs = gen + corpus
    jobs = []
    for (origin, fname, infmt_needed, text) in inputs:
        for tname, outname, outfmt_needed in targets():
            for give_i, give_o, allow, many in itertools.product((False, True), repeat=4):
                if origin == "corpus" and not ctx.thorough and (give_i != give_o):
                    continue  # quick: corpus inputs with half of the option grid
                jobs.append((origin, fname, infmt_needed, text, tname, outname, outfmt_needed, give_i, give_o, allow, many))
            if origin == "generated" or ctx.thorough:
                for allow, many in itertools.product((False, True), repeat=2):
                    jobs.append((origin, fname, infmt_needed, text, tname, outname, outfmt_needed, True, "conflict", allow, many))
                    jobs.append((origin, fname, infmt_needed, text, tname, outname, outfmt_needed, False, "conflict", allow, many))  # -o alone
    jobs.sort(key=lambda j: -len(j[3]))
    pmap(ctx, worker, jobs, chunk=16)
    subprocess_cases(ctx, inputs)
    ctx.cov.update(inputs=len(inputs), generated_inputs=len(gen), corpus_inputs=len(corpus), targets=len(targets()), runs=len(jobs))
    ctx.exhaustive = True
    ctx.rule = (
        "full product: (generated file of every writable format + trajectories, corpus files up to 25 kB quick / 400 kB thorough) x 13 target formats x {-i given/inferred} x {-o given/inferred, given with an output name of another writable format} x {-c} x {-m}, "
        "executed through iodata.__main__.main() with a patched argv (so argparse, flag mapping and the floating-point trap are exercised) and compared byte-for-byte with the file written by the "
        "corresponding API calls; a cross-section runs as a real `python -m iodata` subprocess (exit status, stderr, bytes). Distinct = (input, target, option set)."
    )
    ctx.assumptions += ["a CLI failure where the API succeeds is allowed by the statement (e.g. the documented floating-point trap) and only counted (cli_fails_api_ok)",
                        "long and short option spellings alternate with VERIF_SEED"]


def replay(ctx, payload):
    run(ctx)
    ctx.violations = [v for v in ctx.violations if v.sig == payload["signature"]]
