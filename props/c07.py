"""C07 - loading any file content ends in a valid object or a LoadError (fault enumeration over corpus and generated files)."""

from __future__ import annotations

import os
import shutil
import time
import traceback
import warnings

import numpy as np

from mc import fe
from mc.core import CORPUS
from props import roundtrip

LEVEL = "fault_enumeration"


class Recorder:
    """Installs a LineIterator subclass in iodata.api that remembers every instance."""

    def __enter__(self):
        import iodata.api
        from iodata.utils import LineIterator

        rec = self
        self.instances = []

        class RecordingLineIterator(LineIterator):
            def __init__(self, filename):
                super().__init__(filename)
                self.max_lineno = 0
                rec.instances.append(self)

            def __next__(self):
                line = super().__next__()
                self.max_lineno = max(self.max_lineno, self.lineno)
                return line

        self._api = iodata.api
        self._old = iodata.api.LineIterator
        iodata.api.LineIterator = RecordingLineIterator
        return self

    def __exit__(self, *exc):
        self._api.LineIterator = self._old


def origin(exc):
    """Function in iodata where the exception was raised (stable across line shifts)."""
    tb = traceback.extract_tb(exc.__traceback__)
    for fr in reversed(tb):
        if "/iodata/" in fr.filename and "/verif/" not in fr.filename:
            return f"{os.path.basename(fr.filename)}:{fr.name}"
    return "?"


PER_ATOM_EXTRA = ("occupancies", "bfactors", "chainids", "velocities", "segid", "resid", "species")


def open_descriptors(path):
    """File descriptors of this process that refer to `path` (Linux /proc)."""
    out = []
    try:
        for name in os.listdir("/proc/self/fd"):
            try:
                if os.readlink(f"/proc/self/fd/{name}") == path:
                    out.append(int(name))
            except OSError:
                continue
    except OSError:
        pass
    return out


def _rows(v):
    """Number of rows of a per-atom value; -1 when it has none (a scalar, a 0-d array)."""
    try:
        return len(v)
    except TypeError:
        return -1


def consistent(obj):
    """Problems with mutually inconsistent shapes in a returned IOData object."""
    out = []
    try:
        n = obj.natom
    except Exception as exc:  # noqa: BLE001
        return [f"natom raises {exc!r}"]
    if n is not None:
        for name in ("atcoords", "atnums", "atmasses", "atgradient", "atfrozen"):
            v = getattr(obj, name)
            if v is not None and _rows(v) != n:
                out.append(f"{name} has {_rows(v)} rows for {n} atoms")
        if obj.atcorenums is not None and _rows(obj.atcorenums) != n:
            out.append("atcorenums length")
        for k, v in (obj.atcharges or {}).items():
            if _rows(v) != n:
                out.append(f"atcharges[{k}] has {_rows(v)} entries for {n} atoms")
        for k, v in (obj.atffparams or {}).items():  # force-field parameters are per-atom by definition
            if _rows(v) != n:
                out.append(f"atffparams[{k}] has {_rows(v)} entries for {n} atoms")
        for k in PER_ATOM_EXTRA:  # per-atom columns the loaders document under these names
            v = (obj.extra or {}).get(k)
            if v is not None and _rows(v) != n:
                out.append(f"extra[{k}] has {_rows(v)} entries for {n} atoms")
        if obj.athessian is not None and getattr(obj.athessian, "shape", None) != (3 * n, 3 * n):
            out.append(f"athessian shape {getattr(obj.athessian, 'shape', None)} for {n} atoms")
    if obj.mo is not None and obj.obasis is not None and obj.mo.coeffs is not None and obj.mo.kind != "generalized":
        try:
            nb = obj.obasis.nbasis
        except Exception as exc:  # noqa: BLE001
            out.append(f"obasis.nbasis raises {exc!r}")
            nb = None
        if nb is not None and (getattr(obj.mo.coeffs, "ndim", 0) != 2 or obj.mo.coeffs.shape[0] != nb):
            out.append(f"mo.coeffs has shape {getattr(obj.mo.coeffs, 'shape', None)} for {nb} basis functions")
    if obj.cube is not None and getattr(obj.cube.data, "ndim", None) != 3:
        out.append("cube data not 3-D")
    return out


def judge(part, api, fmtname, path, fmt, kind_label, info, limit, abandon=None):
    """Execute one load and judge the outcome; returns the outcome label.

    abandon: None = exhaust the frame iterator; k = request k frames, then close and drop the iterator (k = 0: never started)."""
    from iodata import load_many, load_one
    from iodata.utils import FileFormatError, LoadError

    objs, exc = None, None
    with Recorder() as rec, warnings.catch_warnings():
        warnings.simplefilter("ignore")
        try:
            with fe.watchdog(limit):
                if api == "load_one":
                    objs = [load_one(path, fmt=fmt)]
                else:
                    it = load_many(path, fmt=fmt)
                    if abandon is not None:
                        objs = []
                        for _ in range(abandon):
                            try:
                                objs.append(next(it))
                            except StopIteration:
                                break
                        it.close()
                        del it
                    else:
                        objs = list(it)
        except fe.Timeout:
            part.violation("terminates", f"{fmtname}:{api}:does-not-terminate:{kind_label}", info, f"{fmtname} {api} [{info['fault']}]: no result within {limit} s")
            return "timeout"
        except BaseException as e:  # noqa: BLE001
            exc = e
    lits = rec.instances
    if exc is None:
        for o in objs:
            for msg in consistent(o):
                part.violation("valid-object", f"{fmtname}:{api}:inconsistent-object:{msg.split(' ')[0]}", info, f"{fmtname} {api} [{info['fault']}]: returned object is inconsistent: {msg}")
        label = f"objects:{min(len(objs), 3)}"
    elif isinstance(exc, LoadError):
        label = "LoadError"
        if os.path.basename(path) not in str(exc):
            part.violation("message", f"{fmtname}:message-lacks-filename:{origin(exc)}", info, f"{fmtname} {api} [{info['fault']}]: LoadError does not name the file: {str(exc)[:200]!r}")
        elif exc.filename != path:
            part.violation("message", f"{fmtname}:wrong-filename-attribute:{origin(exc)}", info, f"{fmtname} {api}: LoadError.filename = {exc.filename!r}")
        if exc.lineno is not None and lits:
            lit = lits[-1]
            if exc.lineno != lit.lineno or exc.lineno < 0 or (exc.lineno == 0 and lit.max_lineno > 0):
                part.violation("lineno", f"{fmtname}:lineno-not-last-line-read:{origin(exc)}", info,
                               f"{fmtname} {api} [{info['fault']}]: LoadError reports line {exc.lineno}, the iterator stands at line {lit.lineno} (max {lit.max_lineno})")
    elif isinstance(exc, FileFormatError):
        label = "FileFormatError"
        part.violation("exception-type", f"{fmtname}:{api}:FileFormatError-for-selectable-file", info, f"{fmtname} {api}: {exc!r}")
    else:
        label = type(exc).__name__
        part.violation("exception-type", f"{fmtname}:{api}:escapes-{type(exc).__name__}:{origin(exc)}", info, f"{fmtname} {api} [{info['fault']}]: {type(exc).__name__} escaped: {str(exc)[:200]!r}")
    # any descriptor of this process still pointing at the file (opened by whatever route), while the outcome is still referenced
    leaked = open_descriptors(path)
    if leaked and not any(lit.fh is not None and not lit.fh.closed for lit in lits):
        part.violation("closed", f"{fmtname}:{api}:descriptor-left-open" + (f":abandoned-after-{abandon}" if abandon is not None else ""), info,
                       f"{fmtname} {api} [{info['fault']}]: {len(leaked)} file descriptor(s) on the input file still open after {label}")
        for fd in leaked:
            try:
                os.close(fd)
            except OSError:
                pass
    for lit in lits:
        if lit.fh is not None and not lit.fh.closed:
            part.violation("closed", f"{fmtname}:{api}:file-left-open" + (f":abandoned-after-{abandon}" if abandon is not None else ""), info, f"{fmtname} {api} [{info['fault']}]: file handle still open after {label}")
            lit.fh.close()
    part.outcome(f"{api}", label)
    return label


def module_of(fname, fmt):
    from iodata.api import _select_format_module

    m = _select_format_module(fname, "load_one", fmt)
    return m.__name__.rsplit(".", 1)[-1], hasattr(m, "load_many")


def worker(chunk, seed, tier):
    from mc.core import Part, make_scratch

    part = Part(seed, tier)
    tmp = make_scratch()
    try:
        for origin_kind, fname, fmt, text, group in chunk:
            fmtname, has_many = module_of(fname, fmt)
            path = str(tmp / fname)
            # time of the unmodified load sets the watchdog
            with open(path, "w") as fh:
                fh.write(text)
            t0 = time.process_time()
            base_info = {"file": fname, "origin": origin_kind, "fault": "none"}
            judge(part, "load_one", fmtname, path, fmt, "none", base_info, 300)
            limit = max(20, int(30 * (time.process_time() - t0)) + 1)  # CPU seconds
            ntimeout = 0
            if group == "truncate-lines":
                muts = fe.line_truncations(text)
            elif group == "truncate-bytes":
                muts = fe.byte_truncations(text)
            elif group == "line-edits":
                muts = fe.line_edits(text)
            elif group == "tokens":
                muts = fe.token_substitutions(text)
            elif group == "table-rows":
                muts = fe.table_row_deletions(text, max_tables=None if tier == "thorough" else 150)
            elif group == "counters":  # every integer token off by one: counts that disagree with what follows
                muts = fe.token_substitutions(text, menu=["DEC1", "INC1", "HUGEINT", "ZERO"], max_tokens=None if tier == "thorough" else 4000)
            elif group.startswith("truncate-lines-every"):
                step = int(group.rsplit("-", 1)[1])
                muts = (m for i, m in enumerate(fe.line_truncations(text)) if i % step == 0)
            else:
                raise KeyError(group)
            nmut = 0
            for key, mutated in muts:
                nmut += 1
                part.count()
                with open(path, "w") as fh:
                    fh.write(mutated)
                info = {"file": fname, "origin": origin_kind, "fault": list(key) if isinstance(key, tuple) else key}
                kl = key[0]
                lab = judge(part, "load_one", fmtname, path, fmt, kl, info, limit)
                part.nontrivial((fname, group, lab))
                if lab == "timeout":
                    ntimeout += 1
                    if ntimeout >= 3:
                        part.cov["jobs_stopped_after_3_timeouts"] = part.cov.get("jobs_stopped_after_3_timeouts", 0) + 1
                        break
                if has_many:
                    judge(part, "load_many", fmtname, path, fmt, kl, info, limit)
                    if kl.startswith("truncate") and nmut % 7 == 0:
                        for k in (0, 1, 2):
                            judge(part, "load_many", fmtname, path, fmt, kl, info, limit, abandon=k)
            part.cov[f"mutations:{group}"] = part.cov.get(f"mutations:{group}", 0) + nmut
            if len(part.samples) < 1:
                part.sample({"file": fname, "group": group, "mutations": nmut})
    finally:
        shutil.rmtree(tmp, ignore_errors=True)
    return part.result()


def special_worker(chunk, seed, tier):
    """Empty / binary content, other formats' content under this name, explicit fmt= for every module."""
    from iodata import load_many, load_one
    from iodata.api import FORMAT_MODULES
    from iodata.utils import FileFormatError, LoadError
    from mc.core import Part, make_scratch

    part = Part(seed, tier)
    tmp = make_scratch()
    binary = bytes(range(256)) * 16
    try:
        for kind, fname, fmt, text in chunk:
            part.count()
            path = str(tmp / fname)
            info = {"file": fname, "fault": kind, "fmt": fmt}
            part.nontrivial((kind, fname, fmt))
            if kind == "binary":
                with open(path, "wb") as fh:
                    fh.write(binary)
            else:
                with open(path, "w") as fh:
                    fh.write(text)
            try:
                fmtname, has_many = module_of(fname, fmt)
            except FileFormatError:
                # no format can be selected: both loaders must say so
                for api in ("load_one", "load_many"):
                    try:
                        with warnings.catch_warnings():
                            warnings.simplefilter("ignore")
                            (load_one(path, fmt=fmt) if api == "load_one" else list(load_many(path, fmt=fmt)))
                        part.violation("exception-type", f"unselectable:{api}:no-error", info, f"{api}({fname}, fmt={fmt}) succeeded")
                    except FileFormatError as exc:
                        part.outcome("unselectable", "FileFormatError")
                        if fname not in str(exc):
                            part.violation("message", f"unselectable:{api}:message-lacks-filename", info, str(exc))
                    except Exception as exc:  # noqa: BLE001
                        part.violation("exception-type", f"unselectable:{api}:raises-{type(exc).__name__}", info, repr(exc))
                continue
            judge(part, "load_one", fmtname, path, fmt, kind, info, 30)
            if has_many:
                judge(part, "load_many", fmtname, path, fmt, kind, info, 30)
    finally:
        shutil.rmtree(tmp, ignore_errors=True)
    return part.result()


def generated_files(seed):
    """One small file per writable format, written by iodata itself from the default C02 object."""
    from iodata import dump_many, dump_one
    from mc.core import make_scratch

    tmp = make_scratch()
    out = []
    try:
        for name, spec in roundtrip.all_specs().items():
            case = {n: m[0] for n, m in spec.space}
            obj, dkw, _ = spec.build(case, seed)
            path = str(tmp / spec.fname)
            with warnings.catch_warnings():
                warnings.simplefilter("ignore")
                dump_one(obj, path, fmt=spec.fmt, **dkw)
            with open(path) as fh:
                out.append(("generated", spec.fname, spec.fmt, fh.read()))
            if name in ("xyz", "pdb", "mol2", "sdf"):
                mpath = str(tmp / ("traj_" + spec.fname))
                with warnings.catch_warnings():
                    warnings.simplefilter("ignore")
                    dump_many([obj, obj, obj], mpath, **dkw)
                with open(mpath) as fh:
                    out.append(("generated", "traj_" + spec.fname, None, fh.read()))
    finally:
        shutil.rmtree(tmp, ignore_errors=True)
    return out


def corpus_files():
    from iodata.api import _select_format_module

    out = []
    for fn in sorted(os.listdir(CORPUS)):
        if fn.endswith((".npy", ".py", ".txt")):
            continue
        # formats without a usable file-name pattern in the corpus are selected explicitly
        fmt = "json_qcschema" if fn.endswith(".json") else "qchemlog" if ("qchem" in fn and fn.endswith(".out")) else "extxyz" if fn in ("mgo.xyz", "al_fcc.xyz", "water_extended_trajectory.xyz") else None
        try:
            _select_format_module(fn, "load_one", fmt)
        except Exception:  # noqa: BLE001
            continue
        try:
            text = (CORPUS / fn).read_text()
        except UnicodeDecodeError:
            continue
        out.append(("corpus", fn, fmt, text))
    return out


def run(ctx):
    from iodata.api import FORMAT_MODULES
    from mc.pool import pmap

    gen = generated_files(ctx.seed)
    corpus = corpus_files()
    jobs = []
    capped = []
    for item in gen:
        nlines = item[3].count("\n")
        jobs.append((*item, "truncate-lines"))
        jobs.append((*item, "line-edits"))
        if len(item[3]) <= 6000:
            jobs.append((*item, "truncate-bytes"))
        if nlines <= 120 or ctx.thorough:
            jobs.append((*item, "tokens"))
        else:
            jobs.append((*item, "counters"))
    small_limit = 300 if not ctx.thorough else 3000
    for item in corpus:
        nlines = item[3].count("\n")
        size = len(item[3])
        if nlines <= small_limit:
            jobs.append((*item, "truncate-lines"))
        else:
            step = max(2, nlines // (60 if not ctx.thorough else 400))
            jobs.append((*item, f"truncate-lines-every-{step}"))
            capped.append((item[1], nlines, step))
        if nlines <= 60 or (ctx.thorough and nlines <= 1000):
            jobs.append((*item, "line-edits"))
        else:
            jobs.append((*item, "table-rows"))
        if ctx.thorough and nlines <= 60:
            jobs.append((*item, "tokens"))
        elif nlines <= (150 if not ctx.thorough else 1500):
            jobs.append((*item, "counters"))
    jobs.sort(key=lambda j: -len(j[3]))
    pmap(ctx, worker, jobs, chunk=1)
    # special content
    special = []
    names = sorted({(it[1], it[2]) for it in gen + corpus if it[0] == "generated" or len(it[3]) < 20000})
    texts = {it[1]: it[3] for it in gen}
    for fname, fmt in names:
        special.append(("empty", fname, fmt, ""))
        special.append(("binary", fname, fmt, None))
        special.append(("only-newlines", fname, fmt, "\n\n\n"))
    # content of every generated file under the name of every other generated file
    for (o1, f1, fmt1, t1) in gen:
        for (o2, f2, fmt2, t2) in gen:
            if f1 != f2 and not f1.startswith("traj_") and not f2.startswith("traj_"):
                special.append((f"content-of-{f2}", f1, fmt1, t2))
    # explicit fmt= for every module on two generated files
    for fmtname in FORMAT_MODULES:
        for (o1, f1, fmt1, t1) in gen[:3]:
            special.append((f"explicit-fmt", f1, fmtname, t1))
    special.append(("unselectable", "noextension", None, "x"))
    special.append(("unselectable", "m.xyz", "nosuchformat", "x"))
    pmap(ctx, special_worker, special, chunk=16)
    ctx.cov.update(generated_files=len(gen), corpus_files=len(corpus), fault_jobs=len(jobs), special_cases=len(special),
                   capped_files=[{"file": f, "lines": n, "every": s} for f, n, s in capped][:40], capped_count=len(capped))
    ctx.exhaustive = not capped
    ctx.rule = (
        f"every line-boundary truncation of every generated file and of every corpus file with <= {small_limit} lines (larger files: every n-th line, listed under capped_files); every byte truncation of "
        "generated files <= 6000 bytes; every single-line delete/duplicate/swap and every single-token substitution from a 12-entry menu on generated (and small corpus) files; on larger files every integer token off by one, zero or beyond 64 bits (counters) and the first/middle/last row deleted from every table (run of equally shaped lines); empty, binary and "
        "newline-only content under every name; every generated file's content under every other format's name; explicit fmt= for every module. Each mutated file is loaded with load_one and, where "
        "available, load_many (exhausted; every 7th truncation also closed and dropped after 0, 1 and 2 requested frames). Non-trivial/distinct = (file, fault group, outcome class)."
    )
    ctx.assumptions += ["generated files are written by iodata's own writers from the default C02 objects (they only serve as well-formed seeds to mutate)",
                        "watchdog = max(20 s, 30 x the time of the unmodified load) of CPU time (ITIMER_PROF); a timeout is reported as non-termination; a job stops after 3 timeouts",
                        "iodata.api.LineIterator is replaced from outside by a recording subclass to observe line numbers and handle closure"]


def replay(ctx, payload):
    run(ctx)
    ctx.violations = [v for v in ctx.violations if v.sig == payload["signature"]]
