"""Metamorphic field substitution for C03: replace one numeric token of a well-formed file by another value of the
same width and require that the attribute element which held the old value now holds the new one (same unit map).

The oracle needs no per-format mapping: a token is judged only if its value occurs at exactly one place of the loaded
object (or at the two transposed places of a symmetric matrix) under one of the unit maps a format may apply.
"""

from __future__ import annotations

import os
import re
import shutil
import warnings

import numpy as np

from mc.core import CORPUS
from ref import units

TOKEN = re.compile(r"(?<![A-Za-z_=\[\(/])[-+]?(?:\d+\.\d*|\.\d+|\d+)(?:[EeDd][-+]?\d+)?(?![A-Za-z_\]\)])")
FIXED_WIDTH = {"pdb", "gromacs", "sdf", "charmm", "wfn"}
# unit maps a format may apply to a number of the file (its prescribed units); "1" = stored as is
FORMAT_MAPS = {
    "xyz": ["angstrom"], "extxyz": ["angstrom", "amu", "1", "-1"], "pdb": ["angstrom", "1"], "mol2": ["angstrom", "1"], "sdf": ["angstrom"], "gaussianinput": ["angstrom"],
    "gromacs": ["nanometer", "nm/ps", "ps"], "charmm": ["angstrom", "amu"], "poscar": ["angstrom"], "chgcar": ["angstrom", "1/volume"], "locpot": ["angstrom", "eV"], "cube": ["1"],
    "fchk": ["1", "amu"], "molden": ["1", "angstrom"], "molekel": ["1", "angstrom"], "wfn": ["1"], "wfx": ["1"], "mwfn": ["1", "angstrom"], "fcidump": ["1"], "gaussianlog": ["1"],
    "gamess": ["1", "angstrom", "amu"], "orcalog": ["1"], "qchemlog": ["1", "angstrom", "amu", "kcal/mol", "cal/mol", "kJ/mol"], "cp2klog": ["1"], "json_qcschema": ["1"],
}
FLOAT32 = {"gromacs", "charmm"}


def unit_maps(obj):
    u = {"1": 1.0, "-1": -1.0, "angstrom": units.angstrom, "nanometer": units.nanometer, "amu": units.amu, "eV": units.electronvolt, "nm/ps": units.nanometer / units.picosecond,
         "ps": units.picosecond, "kcal/mol": units.kcalmol, "cal/mol": units.calmol, "kJ/mol": units.kjmol}
    cell = getattr(obj, "cellvecs", None)
    if cell is not None and np.shape(cell) == (3, 3):
        vol = abs(np.linalg.det(np.asarray(cell, dtype=float)))
        if vol > 0:
            u["1/volume"] = 1.0 / vol
    return u


def flatten(obj):
    """All numeric scalars reachable from an IOData object: (values, labels)."""
    import attrs

    vals, labels = [], []

    def walk(x, path):
        if x is None or isinstance(x, (str, bool)):
            return
        if isinstance(x, (int, float, np.integer, np.floating)):
            vals.append(float(x))
            labels.append((path, ()))
        elif isinstance(x, np.ndarray):
            if x.dtype.kind in "iuf" and x.size <= 2_000_000:
                flat = x.astype(float).ravel()
                vals.extend(flat.tolist())
                labels.extend((path, tuple(int(i) for i in np.unravel_index(k, x.shape))) if x.size <= 4096 else (path, (k,)) for k in range(flat.size))
        elif isinstance(x, dict):
            for k, v in x.items():
                walk(v, f"{path}[{k!r}]")
        elif isinstance(x, (list, tuple)):
            if len(x) <= 5000:
                for i, v in enumerate(x):
                    walk(v, f"{path}[{i}]")
        elif attrs.has(type(x)):
            for a in attrs.fields(type(x)):
                name = a.name.lstrip("_")
                if name == "conventions":
                    continue
                try:
                    walk(getattr(x, name), f"{path}.{name}" if path else name)
                except Exception:  # noqa: BLE001
                    pass

    walk(obj, "")
    return np.array(vals), labels


def parse(tok):
    return float(tok.replace("D", "E").replace("d", "e"))


def precision(tok):
    """Half a unit in the last printed digit of the token (absolute)."""
    t = tok.upper().replace("D", "E")
    mant, _, ex = t.partition("E")
    dec = len(mant.split(".")[1]) if "." in mant else 0
    return 0.5 * 10.0 ** (-dec + (int(ex) if ex else 0))


def mutate(tok):
    """Another value with the same width and format: change one significant digit in the middle of the mantissa."""
    t = tok
    m = re.match(r"([-+]?)(\d*)(\.?)(\d*)(.*)", t)
    sign, ip, dot, fp, rest = m.groups()
    digits = list(ip + fp)
    if not digits:
        return None
    # choose the middle digit for floats (keeps magnitude), the last digit for integers
    k = len(ip) + len(fp) // 2 if fp else len(digits) - 1
    k = min(k, len(digits) - 1)
    d = int(digits[k])
    digits[k] = str((d + 3) % 10 if (d + 3) % 10 != 0 or k > 0 else 4)
    new = "".join(digits)
    out = sign + new[: len(ip)] + dot + new[len(ip):] + rest
    return out if out != tok else None


def widen(text, start, end, fmtname):
    """Column-filling variant: grow the token to the left over all preceding blanks so that it touches the previous field."""
    i = start
    while i > 0 and text[i - 1] == " ":
        i -= 1
    nblank = start - i
    tok = text[start:end]
    if nblank < 1 or "." not in tok or tok[0] in "+-" or "E" in tok.upper() or "D" in tok.upper():
        return None
    if i == 0 or text[i - 1] == "\n":
        return None
    fill = "-" + "9" * (nblank - 1)
    return i, fill + tok


def judge_file(part, fmtname, fname, fmt, text, tmp, step, tag):
    from iodata import load_one

    path = str(tmp / fname)

    def load(t):
        with open(path, "w") as fh:
            fh.write(t)
        with warnings.catch_warnings():
            warnings.simplefilter("ignore")
            return load_one(path, fmt=fmt)

    import time

    t0 = time.time()
    try:
        base = load(text)
    except Exception:  # noqa: BLE001
        return
    dt = time.time() - t0
    # time-aware budget: at most ~`step[1]` seconds of substitutions per file
    step, seconds = step
    ntok = len(TOKEN.findall(text))
    step = max(step, int(ntok * dt / seconds) + 1) if dt > 0 else step
    v0, labels = flatten(base)
    if v0.size == 0:
        return
    maps = {k: v for k, v in unit_maps(base).items() if k in FORMAT_MAPS.get(fmtname, ["1"])}
    slack = 2e-7 if fmtname in FLOAT32 else 4e-16
    tokens = [m for m in TOKEN.finditer(text)]
    judged = reflected = 0
    counts = {}
    for m in tokens:
        try:
            key = round(abs(parse(m.group(0))), 12)
        except ValueError:
            continue
        counts[key] = counts.get(key, 0) + 1
    for it, m in enumerate(tokens):
        if it % step:
            continue
        tok = m.group(0)
        try:
            tau = parse(tok)
        except ValueError:
            continue
        is_int = re.fullmatch(r"[-+]?\d+", tok) is not None
        if abs(tau) < 1e-12 or (is_int and abs(tau) <= 30) or (not is_int and abs(tau) in (1.0, 2.0, 0.5)):
            continue  # too common to be located uniquely
        if fmtname == "pdb" and "." in tok and len(tok.split(".")[1]) > 3:
            continue  # more decimals than the 8.3f/6.2f columns of the format hold
        if not is_int and len(re.sub(r"[^0-9]", "", re.split(r"[EeDd]", tok)[0]).lstrip("0")) < 4:
            continue  # fewer than four significant digits: cannot be located reliably
        if counts.get(round(abs(tau), 12), 0) != 1:
            continue  # the same number occurs elsewhere in the file: the token cannot be tied to one element
        prec = precision(tok)
        cands = []
        if is_int:
            for name, f in (("index", lambda x: x - 1.0), ("1", lambda x: x)):
                idx = np.nonzero(v0 == f(tau))[0]
                cands += [(int(i), name) for i in idx]
        else:
            for name, u in maps.items():
                tol = abs(u) * prec * 1.01 + slack * abs(u * tau) + 1e-300
                idx = np.nonzero(np.abs(v0 - u * tau) <= tol)[0]
                cands += [(int(i), name) for i in idx]
        places = {i for i, _ in cands}
        if not places or len(places) > 2:
            continue
        if len(places) == 2:
            (a, b) = sorted(places)
            la, lb = labels[a], labels[b]
            if not (la[0] == lb[0] and len(la[1]) == 2 and la[1] == lb[1][::-1]):
                continue  # two unrelated places: ambiguous
        names = {n for _, n in cands}
        if len(names) != 1:
            continue
        mapname = names.pop()
        variants = []
        new = mutate(tok)
        if new is not None:
            variants.append(("digit", text[: m.start()] + new + text[m.end():], new))
        for vkind, mutated, newtok in variants:
            part.count()
            try:
                obj = load(mutated)
            except Exception:  # noqa: BLE001
                part.outcome(tag, f"{vkind}:load-fails(not judged)")
                continue
            v1, labels1 = flatten(obj)
            if v1.shape != v0.shape:
                part.outcome(tag, f"{vkind}:structure-changes(not judged)")
                continue
            tau1 = parse(newtok)
            want = (tau1 - 1.0 if mapname == "index" else tau1) if is_int else maps_value(maps, obj, mapname) * tau1
            if all(v1[i] == v0[i] for i in places):
                # the located element did not react at all: the token is not its source (e.g. the same quantity printed twice,
                # a derived value that coincides); nothing can be concluded
                part.outcome(tag, f"{vkind}:element-not-fed-by-token(not judged)")
                continue
            judged += 1
            ok = True
            for i in places:
                got = v1[i]
                tol = 0.0 if is_int else abs(want) * slack + abs(maps[mapname]) * precision(newtok) * 1.01 + 1e-300
                if abs(got - want) > tol:
                    ok = False
                    lab = labels[i]
                    part.violation("metamorphic", f"{fmtname}:token-misread:{vkind}:{re.sub(r'[0-9]+', 'N', lab[0])}", {"format": fmtname, "file": fname, "token": tok, "new_token": newtok, "position": m.start(), "variant": vkind},
                                   f"{fname}: replacing {tok!r} by {newtok!r} (offset {m.start()}): {lab[0]}{list(lab[1])} held {v0[i]!r} (= {mapname} x {tau}), now {got!r}, expected {want!r}")
                    break
            if ok:
                reflected += 1
            part.outcome(tag, f"{vkind}:reflected" if ok else f"{vkind}:NOT-REFLECTED")
    part.nontrivial((fname, judged))
    part.cov["metamorphic_judged_tokens"] = part.cov.get("metamorphic_judged_tokens", 0) + judged
    if len(part.samples) < 1 and judged:
        part.sample({"file": fname, "tokens": len(tokens), "judged": judged, "reflected": reflected})


def maps_value(maps, obj, name):
    if name == "1/volume":
        return unit_maps(obj).get("1/volume", maps[name])
    return maps[name]


def worker(chunk, seed, tier):
    from iodata.api import _select_format_module
    from mc.core import Part, make_scratch

    part = Part(seed, tier)
    tmp = make_scratch()
    try:
        for origin, fname, fmt, text, step in chunk:
            try:
                fmtname = _select_format_module(fname, "load_one", fmt).__name__.rsplit(".", 1)[-1]
            except Exception:  # noqa: BLE001
                continue
            judge_file(part, fmtname, fname, fmt, text, tmp, step, f"meta:{fmtname}")
    finally:
        shutil.rmtree(tmp, ignore_errors=True)
    return part.result()


def run(ctx):
    from mc.pool import pmap
    from props import c07

    gen = c07.generated_files(ctx.seed)
    corpus = c07.corpus_files()
    jobs = []
    budget = 150 if not ctx.thorough else 1500
    for origin, fname, fmt, text in gen + corpus:
        if fname.endswith(".json"):
            continue  # JSON has no layout to mis-slice; covered by C02
        ntok = len(TOKEN.findall(text))
        if ntok == 0 or len(text) > (60_000 if not ctx.thorough else 1_000_000):
            continue
        step = max(1, ntok // budget)
        jobs.append((origin, fname, fmt, text, (step, 3.0 if not ctx.thorough else 60.0)))
    jobs.sort(key=lambda j: -len(j[3]))
    before = len(ctx.violations)
    pmap(ctx, worker, jobs, chunk=1)
    ctx.cov["metamorphic"] = {"files": len(jobs), "token_budget_per_file": budget}


def replay(ctx, payload):
    from mc.core import make_scratch
    from props import c07

    case = payload["case"]
    files = {f[1]: f for f in c07.generated_files(payload.get("seed", 0)) + c07.corpus_files()}
    if case.get("file") in files:
        o, fname, fmt, text = files[case["file"]]
        res = worker([(o, fname, fmt, text, (1, 1e9))], payload.get("seed", 0), "thorough")
        for v in res["violations"]:
            if v["sig"] == payload["signature"]:
                ctx.violation(v["clause"], v["sig"], v["case"], v["detail"])
