"""C09 - dumping never alters the caller's data; conversions are announced and equivalent (DBE + twin-object snapshots)."""

from __future__ import annotations

import itertools
import os
import shutil
import warnings

import numpy as np

from mc import dbe
from props import common, roundtrip, wfn
from ref import gto

LEVEL = "exploration"


def freeze(obj, seen=None):
    """Make every numpy array reachable from obj read-only (an in-place write then fails loudly)."""
    import attrs

    seen = seen if seen is not None else set()
    if id(obj) in seen:
        return
    seen.add(id(obj))
    if isinstance(obj, np.ndarray):
        obj.flags.writeable = False
    elif isinstance(obj, dict):
        for v in obj.values():
            freeze(v, seen)
    elif isinstance(obj, (list, tuple)):
        for v in obj:
            freeze(v, seen)
    elif attrs.has(type(obj)):
        for a in attrs.fields(type(obj)):
            freeze(object.__getattribute__(obj, a.name), seen)


def member_ids(obj):
    """Identity of every attribute value (the caller's arrays must stay the caller's arrays)."""
    import attrs

    return {a.name: id(object.__getattribute__(obj, a.name)) for a in attrs.fields(type(obj)) if not a.name.startswith("_")}


def equivalent(src, out):
    """Problems if `out` (converted object) does not denote the same wavefunction as `src`."""
    problems = []
    pts = gto.PROBE_POINTS[:8]
    b0 = gto.eval_basis(common.plain(src.obasis), src.obasis.conventions, src.atcoords, pts)
    b1 = gto.eval_basis(common.plain(out.obasis), out.obasis.conventions, out.atcoords, pts)
    if b0.shape != b1.shape or np.abs(b0 - b1).max() > 1e-13 * max(1.0, np.abs(b0).max()):
        problems.append("basis functions differ (values or order)")
        return problems

    def dens(d, spin):
        mo = d.mo
        if mo.kind == "restricted":
            v = mo.coeffs.T @ b0
            w = (np.asarray(mo.occsa) - np.asarray(mo.occsb)) if spin else np.asarray(mo.occs)
            return (w[:, None] * v * v).sum(axis=0)
        v = mo.coeffs.T @ b0
        w = np.asarray(mo.occs).copy()
        if spin:
            w[mo.norba :] *= -1
        return (w[:, None] * v * v).sum(axis=0)

    for spin, lab in ((False, "density"), (True, "spin density")):
        r0, r1 = dens(src, spin), dens(out, spin)
        if np.abs(r0 - r1).max() > 1e-12 * max(1.0, np.abs(r0).max()):
            problems.append(f"{lab} differs: {r0[0]!r} vs {r1[0]!r}")
    if abs(src.nelec - out.nelec) > 1e-12:
        problems.append(f"nelec {src.nelec} -> {out.nelec}")
    if abs(src.spinpol - out.spinpol) > 1e-12:
        problems.append(f"spinpol {src.spinpol} -> {out.spinpol}")
    return problems


def worker(chunk, seed, tier):
    from iodata import dump_many, dump_one, write_input
    from iodata.utils import PrepareDumpError, PrepareDumpWarning
    from mc.core import Part, make_scratch

    part = Part(seed, tier)
    specs = roundtrip.all_specs()
    tmp = make_scratch()
    try:
        for kind, name, case, allow, repeat, readonly in chunk:
            part.count()

            def make():
                if kind == "spec":
                    return specs[name].build(case, seed)
                data, _ = wfn.build(case, name, seed)
                return data, {}, {}

            try:
                obj, dkw, _ = make()
                twin, _, _ = make()
            except wfn.Infeasible:
                part.outcome("generator", "infeasible")
                continue
            space = specs[name].space if kind == "spec" else wfn.SPACE
            devs = dbe.dev_str(space, case)
            info = {"kind": kind, "format": name, "allow_changes": allow, "repeat": repeat, "readonly": readonly, **case}
            part.nontrivial(f"{kind}:{name}:{devs}:{allow}:{repeat}:{readonly}")
            if len(part.samples) < 1 and kind == "wf":
                part.sample(info)
            fname = specs[name].fname if kind == "spec" else wfn.TARGETS[name]
            fmt = specs[name].fmt if kind == "spec" else None
            path = str(tmp / fname)
            before = roundtrip.snapshot(twin)
            ids = member_ids(obj)
            if readonly:
                freeze(obj)
            outcomes = []
            for _ in range(repeat):
                with warnings.catch_warnings(record=True) as wl:
                    warnings.simplefilter("always")
                    try:
                        if repeat == 9:  # marker for dump_many
                            out = dump_many([obj, obj], path, fmt=fmt, allow_changes=allow, **dkw)
                        else:
                            out = dump_one(obj, path, fmt=fmt, allow_changes=allow, **dkw)
                        err = None
                    except Exception as exc:  # noqa: BLE001
                        out, err = None, exc
                warned = any(issubclass(w.category, PrepareDumpWarning) for w in wl)
                outcomes.append((out, err, warned))
                if repeat == 9:
                    break
            after = roundtrip.snapshot(obj)
            diff = roundtrip.first_difference(before, after)
            part.outcome("unchanged", "unchanged" if diff is None else "CHANGED")
            if diff is not None:
                part.violation("mutation", f"{name}:caller-object-changed:{devs}", info, f"{name} [{devs}] allow_changes={allow} x{repeat}: the object passed to dump was changed: {diff}")
            ids2 = member_ids(obj)
            swapped = [k for k in ids if ids[k] != ids2[k]]
            if swapped:
                part.violation("mutation", f"{name}:caller-attribute-rebound:{','.join(swapped)}", info, f"{name} [{devs}]: attributes rebound to new objects: {swapped}")
            out, err, warned = outcomes[0]
            if readonly and err is not None:
                # would the same dump succeed with writable arrays?  then something tried to write in place
                obj2, dkw2, _ = make()
                try:
                    with warnings.catch_warnings():
                        warnings.simplefilter("ignore")
                        dump_one(obj2, path, fmt=fmt, allow_changes=allow, **dkw2)
                    part.violation("mutation", f"{name}:in-place-write-attempt:{devs}", info, f"{name} [{devs}]: dump fails only when the caller's arrays are read-only: {err!r} caused by {err.__cause__!r}")
                except Exception:  # noqa: BLE001
                    pass
            if repeat == 9 or kind != "wf" and err is not None:
                continue
            # contract of the return value
            if err is not None:
                if not allow and not isinstance(err, PrepareDumpError):
                    part.outcome("contract", f"error-{type(err).__name__}")
                else:
                    part.outcome("contract", "PrepareDumpError" if isinstance(err, PrepareDumpError) else f"error-{type(err).__name__}")
                continue
            if out is obj and kind == "wf" and obj.mo is not None and obj.obasis is not None:
                # "writes the given object as is": the file just written must denote this very object (C01's comparison, reused)
                from iodata import load_one
                from props import c01

                try:
                    with warnings.catch_warnings():
                        warnings.simplefilter("ignore")
                        back = load_one(path)
                except Exception:  # noqa: BLE001 - self-readability is C01's clause
                    back = None
                if back is not None:
                    problems = []
                    c01.compare(twin, back, name, problems)
                    part.outcome("as-is", "file-denotes-the-object" if not problems else "DIFFERS")
                    for clause, msg in problems[:1]:
                        part.violation("contract", f"{name}:object-returned-unchanged-but-file-differs:{clause}", info, f"{name} [{devs}] allow_changes={allow}: no conversion was made or announced, yet the file does not denote the object: {msg}")
            if not allow:
                ok = out is obj and not warned
                part.outcome("contract", "same-object" if ok else "WRONG")
                if not ok:
                    part.violation("contract", f"{name}:allow_changes=False:" + ("different-object-written" if out is not obj else "warning-without-change"), info, f"{name} [{devs}]: returned is-same={out is obj}, warned={warned}")
            else:
                changed = out is not obj
                ok = changed == warned
                part.outcome("contract", ("converted+announced" if changed else "same-object") if ok else "WRONG")
                if not ok:
                    part.violation("contract", f"{name}:allow_changes=True:" + ("silent-conversion" if changed else "warning-without-conversion"), info, f"{name} [{devs}]: converted={changed} but PrepareDumpWarning={warned}")
                if changed and obj.mo is not None and obj.obasis is not None:
                    for msg in equivalent(twin, out):
                        part.violation("equivalent", f"{name}:converted-object-differs:{devs}", info, f"{name} [{devs}]: {msg}")
    finally:
        shutil.rmtree(tmp, ignore_errors=True)
    return part.result()


def sequence_worker(chunk, seed, tier):
    """The same object dumped to two formats in a row (conversions allowed): the second file must be the file a fresh,
    identically built object gives, and the object must still be unchanged - nothing may be remembered from the first dump."""
    from iodata import dump_one
    from mc.core import Part, make_scratch

    part = Part(seed, tier)
    tmp = make_scratch()
    try:
        for case, first, second, modify in chunk:
            part.count()
            info = {"kind": "wf-sequence", "first": first, "second": second, "modified_between": modify, **case}
            part.nontrivial(repr(info))
            try:
                obj, _ = wfn.build(case, second, seed)
                twin, _ = wfn.build(case, second, seed)
            except wfn.Infeasible:
                continue

            def dump(o, target, name):
                path = str(tmp / (name + "_" + wfn.TARGETS[target]))
                with warnings.catch_warnings():
                    warnings.simplefilter("ignore")
                    try:
                        dump_one(o, path, allow_changes=True)
                    except Exception as exc:  # noqa: BLE001
                        return f"{type(exc).__name__}"
                with open(path, "rb") as fh:
                    return fh.read()

            dump(obj, first, "a")
            if modify:
                # rebind the exponents of the first shell of both objects to new (equal) arrays between the two dumps
                for o in (obj, twin):
                    o.obasis.shells[0].exponents = np.array(o.obasis.shells[0].exponents) * 1.5
            got = dump(obj, second, "b")
            want = dump(twin, second, "c")
            ok = got == want
            part.outcome("sequence", "same-as-fresh-object" if ok else "DIFFERS")
            if not ok:
                part.violation("contract", f"{second}:dump-depends-on-earlier-dump:after-{first}" + (":basis-modified-between" if modify else ""), info,
                               f"dump to {second} after a dump of the same object to {first}{' and a change of the basis' if modify else ''} gives "
                               f"{got if isinstance(got, str) else str(len(got)) + ' bytes'}, a fresh identical object gives {want if isinstance(want, str) else str(len(want)) + ' bytes'}")
    finally:
        shutil.rmtree(tmp, ignore_errors=True)
    return part.result()


def input_cases(ctx):
    from iodata import IOData, write_input

    tmp = ctx.scratch()
    for prog in ("gaussian", "orca"):
        for variant in ("plain", "with-extra", "with-mo", "custom-template"):
            ctx.count()
            ctx.nontrivial(("write_input", prog, variant))

            def make():
                kw = dict(atnums=np.array([8, 1, 1]), atcoords=np.array([[0.0, 0, 0], [0, 1.5, 0], [0, 0, 1.5]]), charge=0, spinpol=0, title="t", lot="hf", obasis_name="sto-3g", run_type="opt")
                if variant == "with-extra":
                    kw["extra"] = {"nested": {"a": [1, 2, {"b": 3}]}, "arr": np.arange(3.0)}
                    kw["atcharges"] = {"m": np.zeros(3)}
                if variant == "with-mo":
                    from iodata.orbitals import MolecularOrbitals

                    kw.pop("charge"), kw.pop("spinpol")
                    kw["mo"] = MolecularOrbitals("restricted", 5, 5, occs=np.array([2.0, 2, 2, 2, 2]))
                return IOData(**kw)

            obj, twin = make(), make()
            before = roundtrip.snapshot(twin)
            kwargs = {"template": "{title} {charge} {spinmult}\n{geometry}\n{extra}"} if variant == "custom-template" else {}
            try:
                write_input(obj, str(tmp / f"{prog}.inp"), prog, **kwargs)
            except Exception as exc:  # noqa: BLE001
                ctx.outcome("write_input", f"error-{type(exc).__name__}")
            diff = roundtrip.first_difference(before, roundtrip.snapshot(obj))
            ctx.outcome("write_input", "unchanged" if diff is None else "CHANGED")
            if diff is not None:
                ctx.violation("mutation", f"write_input:{prog}:caller-object-changed", {"program": prog, "variant": variant}, f"write_input({prog}) changed the object: {diff}")


def run(ctx):
    from mc.pool import pmap

    specs = roundtrip.all_specs()
    k = 3 if ctx.thorough else 1
    jobs = []
    for name, spec in specs.items():
        for case in dbe.cases(spec.space, max(2, k) if name == "json_qcschema" else k):
            if int(case.get("natom", 0) or 0) > 1000:
                continue
            ndev = len(dbe.deviations(spec.space, case))
            for allow in (False, True):
                jobs.append(("spec", name, case, allow, 1, False))
            if ndev <= 1:
                jobs.append(("spec", name, case, False, 3, False))
                jobs.append(("spec", name, case, True, 1, True))
                if name in ("xyz", "pdb", "mol2", "sdf"):
                    jobs.append(("spec", name, case, False, 9, False))
    # objects needing conversion: contraction x orbital kind (full product) x targets x allow_changes
    default = {n: m[0] for n, m in wfn.SPACE}
    con = dict(wfn.SPACE)["contraction"]
    mos = dict(wfn.SPACE)["mo"]
    shellsets = ["+d-cart", "+d-pure"] if ctx.thorough else ["+d-cart"]
    orders = ["grouped", "reversed", "interleaved"] if not ctx.thorough else dict(wfn.SPACE)["shell_order"]
    wf_cases = []
    for c, m, ss, so in itertools.product(con, mos, shellsets, orders):
        if so != "grouped" and not (c == "segmented" or m == "restricted"):
            continue  # shell order is crossed with each of the two conversion axes, not with both at once
        wf_cases.append(dict(default, contraction=c, mo=m, shellset=ss, shell_order=so))
    # orbital kind x extra dictionary content (a conversion must not rebind or rewrite entries of the caller's dictionaries)
    wf_cases += [dict(default, mo=m, extras="mo_spin") for m in mos]
    for case in wf_cases:
        for target in wfn.TARGETS:
            for allow in (False, True):
                jobs.append(("wf", target, case, allow, 1, False))
            jobs.append(("wf", target, case, True, 2, False))
            jobs.append(("wf", target, case, True, 1, True))
    pmap(ctx, worker, jobs, chunk=16)
    seq = [(dict(default, contraction=c, shellset=ss), a, b, m) for c in con for ss in ("+d-cart", "sp") for a in wfn.TARGETS for b in wfn.TARGETS for m in (False, True) if a != b or m]
    pmap(ctx, sequence_worker, seq, chunk=16)
    input_cases(ctx)
    ctx.cov.update(dbe_k=k, jobs=len(jobs), formats=sorted(specs))
    ctx.exhaustive = True
    ctx.rule = (
        f"for each of the 13 dump formats every object of the C02 space with <= {k} deviations, dumped with allow_changes False and True, three times in a row, with read-only arrays, and through dump_many "
        "(XYZ/PDB/MOL2/SDF); plus the full product contraction(6) x orbital kind(10) x 5 wavefunction targets x allow_changes (objects needing conversion), plus write_input for both programs. "
        "A deep bit-exact snapshot of an identically built twin object (taken before) is compared with the dumped object (after); converted objects are compared with the original through ref/gto.py."
    )
    ctx.assumptions += ["default core charges materialised from atnums are not a change (observed through the public property)", "member identity is checked for public attrs fields"]


def replay(ctx, payload):
    case = dict(payload["case"])
    if "program" in case:
        input_cases(ctx)
        return
    kind, name, allow, repeat, readonly = case.pop("kind"), case.pop("format"), case.pop("allow_changes"), case.pop("repeat"), case.pop("readonly")
    specs = roundtrip.all_specs()
    space = specs[name].space if kind == "spec" else wfn.SPACE
    case = {n: roundtrip._restore(case[n], m) for n, m in space}
    res = worker([(kind, name, case, allow, repeat, readonly)], payload.get("seed", 0), "quick")
    for v in res["violations"]:
        ctx.violation(v["clause"], v["sig"], v["case"], v["detail"])
