"""C13 - trajectories keep every frame, in order, each identical to a single load (sequence enumeration + FE)."""

from __future__ import annotations

import itertools
import os
import shutil
import warnings

import numpy as np

from mc import faultio, fe
from mc.core import CORPUS
from props import roundtrip
from ref import periodic, units

LEVEL = "fault_enumeration"
DUMP_FORMATS = {"xyz": "t.xyz", "pdb": "t.pdb", "mol2": "t.mol2", "sdf": "t.sdf"}
NFRAME_MENU = 6


def frame(k, fmt):
    """Frame k of the menu as an IOData object suited to format fmt."""
    from iodata import IOData

    natom = [3, 1, 2, 11, 3, 2][k]
    z = np.array([[8, 1, 1], [10], [17, 11], [6, 1, 1, 1, 1, 7, 8, 16, 1, 1, 35], [7, 1, 1], [1, 9]][k])
    xyz = (np.arange(3.0 * natom).reshape(natom, 3) * 0.125 + 0.25 * (k + 1) - ((np.arange(natom) % 2) * 0.5)[:, None]) * units.angstrom
    title = ["frame A", None, "12345", "the big one", "frame E", "   6   "][k]
    kw = dict(atnums=z, atcoords=xyz)
    if title is not None and title.strip():
        kw["title"] = title.strip()
    if fmt in ("sdf", "mol2", "pdb") and natom >= 2 and k in (0, 3, 4):
        kw["bonds"] = np.array([[0, j, 1 if fmt != "pdb" else 8] for j in range(1, min(natom, 4))])
    if fmt == "mol2":
        kw["atcharges"] = {"mol2charges": np.round(np.linspace(-0.5, 0.5, natom) + 0.01 * k, 4)}
    if fmt == "pdb":
        kw["extra"] = {}
    return IOData(**kw)


def single_text_and_obj(fr, fmt, tmp):
    from iodata import dump_one, load_one

    path = str(tmp / ("single_" + DUMP_FORMATS[fmt]))
    with warnings.catch_warnings():
        warnings.simplefilter("ignore")
        dump_one(fr, path)
        with open(path) as fh:
            text = fh.read()
        obj = load_one(path)
    return text, obj


def load_frames(path, fmt=None):
    """(frames, exception, warnings) of iterating load_many to exhaustion."""
    from iodata import load_many

    frames = []
    with warnings.catch_warnings(record=True) as wl:
        warnings.simplefilter("always")
        try:
            for o in load_many(path, fmt=fmt):
                frames.append(o)
            exc = None
        except Exception as e:  # noqa: BLE001
            exc = e
    return frames, exc, [str(w.message) for w in wl]


def seq_worker(chunk, seed, tier):
    from iodata import dump_many
    from mc.core import Part, make_scratch

    part = Part(seed, tier)
    tmp = make_scratch()
    singles = {}
    try:
        for fmt, seq, iterkind in chunk:
            part.count()
            info = {"format": fmt, "sequence": list(seq), "iterable": iterkind}
            part.nontrivial(repr(info))
            if len(part.samples) < 1 and len(seq) == 3:
                part.sample(info)
            for k in seq:
                if (fmt, k) not in singles:
                    singles[(fmt, k)] = single_text_and_obj(frame(k, fmt), fmt, tmp)
            frames = [frame(k, fmt) for k in seq]
            events = []
            raise_at = None
            if isinstance(iterkind, tuple):
                raise_at = iterkind[1]

            def gen():
                for i, f in enumerate(frames):
                    if raise_at is not None and i == raise_at:
                        events.append(("raise", i))
                        raise KeyError("caller's iterable failed")
                    events.append(("pull", i))
                    yield f
                events.append(("exhausted", len(frames)))

            arg = list(frames) if iterkind == "list" else gen()
            path = str(tmp / DUMP_FORMATS[fmt])
            if os.path.exists(path):
                os.remove(path)
            with faultio.OpenPatch() as op, warnings.catch_warnings():
                warnings.simplefilter("ignore")
                op.log = events  # writes and pulls share one event log
                try:
                    dump_many(arg, path)
                    exc = None
                except Exception as e:  # noqa: BLE001
                    exc = e
            sig0 = f"{fmt}:dump_many"
            if raise_at is not None:
                # the caller's exception must escape (as itself or wrapped), after the earlier frames were written
                ok = exc is not None and (isinstance(exc, KeyError) or isinstance(exc.__cause__, KeyError) or "caller" in repr(exc) + repr(exc.__cause__))
                part.outcome("iterable-raises", type(exc).__name__ if exc is not None else "SWALLOWED")
                if not ok:
                    part.violation("iterable-raises", f"{sig0}:caller-exception-swallowed", info, f"{fmt}: generator raised at item {raise_at}, dump_many finished with {exc!r}")
                if raise_at > 0 and os.path.exists(path):
                    got, e2, _ = load_frames(path)
                    if len(got) < raise_at and e2 is None:
                        part.violation("iterable-raises", f"{sig0}:earlier-frames-missing", info, f"{fmt}: {len(got)} frames in the file, {raise_at} were yielded before the failure")
                continue
            if exc is not None:
                part.violation("dump_many", f"{sig0}:raises-{type(exc).__name__}", info, f"{fmt} dump_many{list(seq)}: {exc!r} caused by {exc.__cause__!r}")
                continue
            # laziness: never more than one item ahead of the frame being written; pulled exactly once each
            if iterkind != "list":
                pulls = [e for e in events if e[0] in ("pull", "exhausted")]
                order_ok = [e[1] for e in pulls if e[0] == "pull"] == list(range(len(frames))) and pulls[-1][0] == "exhausted"
                ahead_ok = True
                last_pull = None
                wrote_since = True
                for e in events:
                    if e[0] == "pull":
                        if last_pull is not None and not wrote_since:
                            ahead_ok = False
                        last_pull = e[1]
                        wrote_since = False
                    elif e[0] == "write":
                        wrote_since = True
                part.outcome("lazy", "one-at-a-time" if order_ok and ahead_ok else "WRONG")
                if not order_ok:
                    part.violation("lazy", f"{sig0}:iterable-not-consumed-exactly-once", info, f"{fmt}: pull events {pulls}")
                if not ahead_ok:
                    part.violation("lazy", f"{sig0}:iterable-consumed-ahead", info, f"{fmt}: two items were pulled without a write in between: {events[:12]}")
            # reload
            got, e2, _ = load_frames(path)
            if e2 is not None:
                part.violation("reload", f"{sig0}:reload-raises-{type(e2).__name__}", info, f"{fmt}: file written by dump_many{list(seq)} fails in load_many: {e2!r}")
                continue
            if len(got) != len(seq):
                part.violation("frames", f"{sig0}:frame-count", info, f"{fmt}: wrote {len(seq)} frames, read {len(got)}")
                continue
            for i, (k, o) in enumerate(zip(seq, got)):
                d = roundtrip.first_difference(roundtrip.snapshot(singles[(fmt, k)][1]), roundtrip.snapshot(o))
                if d:
                    part.violation("frames", f"{sig0}:frame-differs-from-single-load", info, f"{fmt}: frame {i} (menu {k}) of the trajectory differs from its single save+reload: {d}")
                    break
            else:
                part.outcome("frames", "identical-to-single")
    finally:
        shutil.rmtree(tmp, ignore_errors=True)
    return part.result()


# ---- independent mini writers for the two read-only trajectory formats -----------------------------------

def gro_frame(k):
    natom = [3, 1, 2, 4][k % 4]
    lines = [f"frame {k}, t= {0.5 * k:.3f}", f"{natom:5d}"]
    for i in range(natom):
        x, y, z = 0.1 * (i + 1) + k, 1.5 - 0.25 * i, 0.125 * (i + k)
        lines.append(f"{i // 3 + 1:5d}{'SOL':<5s}{['OW', 'HW1', 'HW2'][i % 3]:>5s}{i + 1:5d}{x:8.3f}{y:8.3f}{z:8.3f}{0.1 * i:8.4f}{-0.2:8.4f}{0.3:8.4f}")
    lines.append(f"{1.5 + k:10.5f}{2.5:10.5f}{3.5:10.5f}")
    return "\n".join(lines) + "\n"


def extxyz_frame(k):
    natom = [3, 1, 2, 4][k % 4]
    syms = ["O", "H", "H", "C"]
    lines = [str(natom), f'Lattice="{5.0 + k} 0.0 0.0 0.0 6.0 0.0 0.0 0.0 7.0" Properties=species:S:1:pos:R:3 energy={-1.5 * (k + 1)} pbc="T T T"']
    for i in range(natom):
        lines.append(f"{syms[i]} {0.25 * (i + 1) + k:.8f} {-0.5 * i:.8f} {0.125 * k:.8f}")
    return "\n".join(lines) + "\n"


def fault_worker(chunk, seed, tier):
    """Truncation at every line and corruption of every numeric field of a multi-frame file."""
    from iodata import load_one
    from mc.core import Part, make_scratch

    part = Part(seed, tier)
    tmp = make_scratch()
    try:
        for fmt, fname, texts, mode in chunk:
            full = "".join(texts)
            path = str(tmp / fname)
            # reference: each frame loaded alone
            singles = []
            for t in texts:
                with open(path, "w") as fh:
                    fh.write(t)
                with warnings.catch_warnings():
                    warnings.simplefilter("ignore")
                    singles.append(roundtrip.snapshot(load_one(path)))
            with open(path, "w") as fh:
                fh.write(full)
            got, exc, _ = load_frames(path)
            info0 = {"format": fmt, "frames": len(texts), "fault": "none"}
            part.count()
            if exc is not None or len(got) != len(texts) or any(roundtrip.first_difference(s, roundtrip.snapshot(o)) for s, o in zip(singles, got)):
                part.violation("frames", f"{fmt}:load_many:intact-file", info0, f"{fmt}: intact {len(texts)}-frame file: {len(got)} frames, exception {exc!r}")
                continue
            part.outcome("intact", f"{len(texts)}-frames-in-order")
            offsets = np.cumsum([0] + [len(t) for t in texts])
            if mode == "truncate":
                for key, mutated in fe.line_truncations(full):
                    part.count()
                    part.nontrivial((fmt, fname, key))
                    with open(path, "w") as fh:
                        fh.write(mutated)
                    got, exc, wl = load_frames(path)
                    ncomplete = int(np.searchsorted(offsets, len(mutated), side="right") - 1)
                    info = {"format": fmt, "frames": len(texts), "fault": list(key), "complete_frames": ncomplete}
                    # every yielded frame that is not reported (warning/error) must be identical to the full-file frame
                    bad = None
                    for i, o in enumerate(got):
                        if i < len(singles) and roundtrip.first_difference(singles[i], roundtrip.snapshot(o)) is None:
                            continue
                        bad = i
                        break
                    if bad is not None and not wl and exc is None:
                        part.violation("truncation", f"{fmt}:load_many:partial-frame-without-warning", info, f"{fmt}: file cut after {key[1]} lines yields a frame {bad} that differs from the complete frame, without warning or error")
                    elif len(got) < ncomplete and exc is None:
                        part.violation("truncation", f"{fmt}:load_many:complete-frame-lost", info, f"{fmt}: file cut after {key[1]} lines holds {ncomplete} complete frames, {len(got)} were yielded")
                    else:
                        part.outcome("truncation", "dropped" if bad is None and exc is None else ("warned" if exc is None else "raised"))
            else:
                for key, mutated, pos in fe.numeric_field_substitutions(full):
                    j = int(np.searchsorted(offsets, pos, side="right") - 1)
                    if j >= len(texts) - 1:
                        continue  # a corrupted last frame is indistinguishable from truncation (judged by that clause)
                    part.count()
                    part.nontrivial((fmt, fname, key[1], key[2]))
                    with open(path, "w") as fh:
                        fh.write(mutated)
                    got, exc, wl = load_frames(path)
                    info = {"format": fmt, "frames": len(texts), "fault": list(key), "corrupted_frame": j}
                    if len(part.samples) < 1:
                        part.sample(info)
                    before_ok = all(i < len(got) and roundtrip.first_difference(singles[i], roundtrip.snapshot(got[i])) is None for i in range(j))
                    if exc is not None:
                        ok = type(exc).__name__ == "LoadError" and len(got) == j and before_ok
                        part.outcome("corruption", "LoadError-at-frame" if ok else "raised-elsewhere")
                        if type(exc).__name__ != "LoadError":
                            part.violation("corruption", f"{fmt}:load_many:corrupt-frame-raises-{type(exc).__name__}", info, f"{fmt}: {exc!r}")
                        elif len(got) > j or not before_ok:
                            # frames after/including the corrupted one were yielded before the error: only a problem if they differ silently
                            if not before_ok:
                                part.violation("corruption", f"{fmt}:load_many:earlier-frame-changed", info, f"{fmt}: corrupting frame {j} changed an earlier frame")
                    else:
                        others_ok = len(got) == len(texts) and all(roundtrip.first_difference(singles[i], roundtrip.snapshot(got[i])) is None for i in range(len(texts)) if i != j)
                        if len(got) < len(texts):
                            part.violation("corruption", f"{fmt}:load_many:sequence-ends-silently", info,
                                           f"{fmt}: field {key[1]} of frame {j} replaced by {key[2]!r}: only {len(got)} of {len(texts)} frames yielded, no error")
                        elif not others_ok:
                            part.violation("corruption", f"{fmt}:load_many:other-frame-changed", info, f"{fmt}: corrupting frame {j} changed another frame or the frame count ({len(got)})")
                        else:
                            part.outcome("corruption", "value-changed-or-ignored-column")
    finally:
        shutil.rmtree(tmp, ignore_errors=True)
    return part.result()

# ---- read side: heterogeneous trajectories written by independent writers ---------------------------------------

def read_menu(fmt):
    """Frame texts (independent writers) that differ in everything a frame may differ in: atom count, blank/numeric
    titles, optional sections and columns.  Each text is a complete single-frame file of the format."""
    from ref import writers

    ang = units.angstrom

    def geo(n, k):
        z = [[8, 1, 1, 6, 7][i % 5] for i in range(n)]
        xyz = (np.arange(3.0 * n).reshape(n, 3) * 0.25 + 0.125 * (k + 1) - ((np.arange(n) % 2) * 0.75)[:, None]) * ang
        return z, xyz

    out = []
    if fmt == "xyz":
        for k, (n, title) in enumerate([(3, "frame A"), (1, ""), (2, "12345"), (4, "   padded   "), (3, "2")]):
            z, xyz = geo(n, k)
            out.append(writers.xyz(z, xyz, title, as_numbers=(k == 3)))
    elif fmt == "sdf":
        for k, (n, title, bonds) in enumerate([(3, "frame A", [(0, 1, 1), (0, 2, 1)]), (2, "", [(0, 1, 2)]), (1, "lonely", None), (4, "   ", [(0, 1, 1), (1, 2, 1), (2, 3, 3)]), (3, "3  2", None)]):
            z, xyz = geo(n, k)
            out.append(writers.sdf(z, xyz, title, bonds, comment="" if k % 2 else "a comment"))
    elif fmt == "mol2":
        for k, (n, title, bonds, charges) in enumerate([(3, "frame A", [(0, 1, "1"), (0, 2, "1")], True), (1, "single", None, False), (2, "****", [(0, 1, "ar")], True), (4, "12", None, True), (3, "frame E", [(1, 2, "am")], False)]):
            z, xyz = geo(n, k)
            out.append(writers.mol2(z, xyz, title, [round(-0.3 + 0.2 * i + 0.01 * k, 4) for i in range(n)] if charges else None, None, bonds))
    elif fmt == "pdb":
        for k, (n, title, bonds, het) in enumerate([(3, "frame A", [(0, 1), (0, 2)], False), (1, None, None, True), (2, "12345", None, False), (4, "long title", [(0, 3)], True), (3, None, [(1, 2)], False)]):
            z, xyz = geo(n, k)
            out.append(writers.pdb(z, xyz, title, bonds=bonds, hetatm=het, occ=[0.5 + 0.1 * k] * n if k % 2 else None))
    elif fmt == "gromacs":
        for k, (n, vel, t) in enumerate([(3, True, 0.5), (1, False, None), (2, True, 1.0), (4, False, 2.5), (3, True, None)]):
            _z, xyz = geo(n, k)
            out.append(writers.gro(np.round(xyz / units.nanometer, 3) * units.nanometer, f"frame {k}", None if t is None else t * units.picosecond,
                                   vel_au=np.full((n, 3), 0.25 * (k + 1)) * units.nanometer / units.picosecond if vel else None, cell_bohr=np.diag([3.0 + k, 4.0, 5.0]) * units.nanometer))
    elif fmt == "extxyz":
        variants = [dict(), dict(species_as_z=True), dict(extra_cols={"Z": ("I", 1, None)}), dict(masses=True), dict(forces=True, cell=False), dict(extra_cols={"tag": ("S", 1, None), "Z": ("I", 1, None)}, energy=None, cell=False),
                    dict(extra_cols={"tag": ("S", 1, None), "Z": ("I", 1, None)}, energy=None, cell=False, labels="other")]  # same title line as the previous one
        for k, v in enumerate(variants):
            n = [3, 2, 3, 1, 4, 2, 3][k]
            z, xyz = geo(n, k)
            cols = None
            if v.get("extra_cols"):
                cols = {name: (dt, nc, [int(zi) for zi in z] if name == "Z" else [f"{'lab' if v.get('labels') != 'other' else 'alt'}{i}" for i in range(n)]) for name, (dt, nc, _) in v["extra_cols"].items()}
            out.append(writers.extxyz(z, xyz, None if v.get("cell") is False else np.diag([5.0 + k, 6.0, 7.0]) * ang, energy=v.get("energy", -1.5 * (k + 1)), charge=1.0 if k == 1 else None,
                                      masses_au=np.array([1.5 * (i + 1) for i in range(n)]) * units.amu if v.get("masses") else None,
                                      forces=np.arange(3.0 * n).reshape(n, 3) * 0.01 if v.get("forces") else None, species_as_z=v.get("species_as_z", False), extra_cols=cols))
    return out


READ_FORMATS = {"xyz": "r.xyz", "sdf": "r.sdf", "mol2": "r.mol2", "pdb": "r.pdb", "gromacs": "r.gro", "extxyz": "r.extxyz"}


def fresh_single_snapshots(fmt, texts, tmp):
    """Load every frame text alone, each in its own forked process (no state can leak from one load to the next)."""
    import pickle

    from iodata import load_one

    snaps = []
    for t in texts:
        path = str(tmp / ("single_" + READ_FORMATS[fmt]))
        with open(path, "w") as fh:
            fh.write(t)
        r, w = os.pipe()
        pid = os.fork()
        if pid == 0:
            code = 0
            try:
                os.close(r)
                with warnings.catch_warnings():
                    warnings.simplefilter("ignore")
                    try:
                        res = ("ok", roundtrip.snapshot(load_one(path)))
                    except Exception as exc:  # noqa: BLE001
                        res = ("exc", f"{exc!r} caused by {exc.__cause__!r}")
                with os.fdopen(w, "wb") as fh:
                    pickle.dump(res, fh)
            except BaseException:  # noqa: BLE001
                code = 1
            finally:
                os._exit(code)
        os.close(w)
        with os.fdopen(r, "rb") as fh:
            data = fh.read()
        os.waitpid(pid, 0)
        snaps.append(pickle.loads(data) if data else ("exc", "child failed"))
    return snaps


def read_worker(chunk, seed, tier):
    from iodata import load_one
    from mc.core import Part, make_scratch

    part = Part(seed, tier)
    tmp = make_scratch()
    try:
        for fmt, seq, texts, singles in chunk:
            part.count()
            info = {"format": fmt, "sequence": list(seq), "side": "read"}
            part.nontrivial(repr(info))
            if len(part.samples) < 1 and len(seq) == 3:
                part.sample(info)
            path = str(tmp / READ_FORMATS[fmt])
            with open(path, "w") as fh:
                fh.write("".join(texts[k] for k in seq))
            got, exc, _ = load_frames(path)
            sig0 = f"{fmt}:load_many:independent-writer"
            if exc is not None:
                part.outcome("read-sequences", "RAISED")
                part.violation("frames", f"{sig0}:raises-{type(exc).__name__}", info, f"{fmt}: trajectory of frames {list(seq)} (each loads alone): {exc!r} caused by {exc.__cause__!r}")
                continue
            if len(got) != len(seq):
                part.outcome("read-sequences", "FRAME-COUNT")
                part.violation("frames", f"{sig0}:frame-count", info, f"{fmt}: the file holds {len(seq)} frames (menu {list(seq)}), load_many yields {len(got)} without error")
                continue
            for i, (k, o) in enumerate(zip(seq, got)):
                d = roundtrip.first_difference(singles[k][1], roundtrip.snapshot(o))
                if d:
                    part.outcome("read-sequences", "DIFFERS")
                    part.violation("frames", f"{sig0}:frame-differs-from-single-load", info, f"{fmt}: frame {i} (menu {k}) of the trajectory {list(seq)} differs from the same text loaded alone in a fresh process: {d}")
                    break
            else:
                part.outcome("read-sequences", "identical-to-single")
                # ... and a single load afterwards, in this (now used) process, still gives the fresh-process result
                k = seq[-1]
                with open(path, "w") as fh:
                    fh.write(texts[k])
                with warnings.catch_warnings():
                    warnings.simplefilter("ignore")
                    try:
                        d = roundtrip.first_difference(singles[k][1], roundtrip.snapshot(load_one(path)))
                    except Exception as e:  # noqa: BLE001
                        d = repr(e)
                if d:
                    part.violation("frames", f"{sig0}:single-load-depends-on-earlier-loads", info, f"{fmt}: frame text {k} loaded alone after the trajectory {list(seq)} differs from a fresh-process load: {d}")
    finally:
        shutil.rmtree(tmp, ignore_errors=True)
    return part.result()


def read_sequences(ctx):
    from mc.pool import pmap

    tmp = ctx.scratch()
    jobs = []
    nseq = 0
    for fmt in READ_FORMATS:
        texts = read_menu(fmt)
        singles = fresh_single_snapshots(fmt, texts, tmp)
        usable = []
        for k, sres in enumerate(singles):
            ctx.count()
            if sres[0] != "ok":
                ctx.violation("frames", f"{fmt}:load_one:independent-writer-frame-rejected", {"format": fmt, "frame": k}, f"{fmt}: menu frame {k} alone is rejected: {sres[1]}")
            else:
                usable.append(k)
        maxlen = 5 if ctx.thorough else 3
        for n in range(1, maxlen + 1):
            for seq in itertools.product(usable, repeat=n):
                jobs.append((fmt, seq, texts, singles))
                nseq += 1
    pmap(ctx, read_worker, jobs, chunk=64)
    ctx.cov.update(read_sequences=nseq, read_formats=sorted(READ_FORMATS))


def fchk_trajectories(ctx):
    from iodata import load_many

    for fn in ("peroxide_opt.fchk", "peroxide_irc.fchk", "peroxide_relaxed_scan.fchk", "peroxide_tsopt.fchk"):
        ctx.count()
        ctx.nontrivial(("fchk", fn))
        path = str(CORPUS / fn)
        with warnings.catch_warnings():
            warnings.simplefilter("ignore")
            frames = list(load_many(path))
        # independent parse of the counts and the energies
        text = open(path).read().splitlines()
        nsteps = []
        energies = []
        i = 0
        while i < len(text):
            line = text[i]
            if line.startswith(("Optimization Number of geometries", "IRC Number of geometries")):
                n = int(line.split("N=")[1])
                vals = []
                while len(vals) < n:
                    i += 1
                    vals += [int(w) for w in text[i].split()]
                nsteps = vals
            if "Results for each geome" in line:
                n = int(line.split("N=")[1])
                vals = []
                while len(vals) < n:
                    i += 1
                    vals += [float(w) for w in text[i].split()]
                energies += vals[::2]
            i += 1
        got_e = [f.energy for f in frames]
        order = [(f.extra["ipoint"], f.extra["istep"]) for f in frames]
        ok = len(frames) == len(energies) and got_e == energies and order == sorted(order) and len(set(order)) == len(order)
        ctx.outcome("fchk-trajectory", f"{len(frames)}-frames-in-file-order" if ok else "WRONG")
        if not ok:
            ctx.violation("frames", f"fchk:load_many:{fn}", {"file": fn}, f"{fn}: {len(frames)} frames, {len(energies)} energies in the file (steps per point {nsteps}); order {order[:5]}")


def run(ctx):
    from mc.pool import pmap

    maxlen = 3
    seqs = [s for n in range(1, maxlen + 1) for s in itertools.product(range(NFRAME_MENU), repeat=n)]
    if ctx.thorough:
        seqs += [s for n in (4, 5) for s in itertools.product(range(NFRAME_MENU), repeat=n)]
        seqs.append(tuple(i % NFRAME_MENU for i in range(50)))
    jobs = []
    for fmt in DUMP_FORMATS:
        for s in seqs:
            jobs.append((fmt, s, "list"))
            jobs.append((fmt, s, "generator"))
            if len(s) <= 3:
                for j in range(len(s)):
                    jobs.append((fmt, s, ("raising", j)))
    pmap(ctx, seq_worker, jobs, chunk=32)
    # fault enumeration on multi-frame files
    from iodata import dump_one
    tmp = ctx.scratch()
    fjobs = []
    for fmt, fname in DUMP_FORMATS.items():
        for seq in ((0, 1, 2), (3, 5, 4)) + (((2, 0, 3, 1),) if ctx.thorough else ()):
            texts = []
            for k in seq:
                p = str(tmp / fname)
                with warnings.catch_warnings():
                    warnings.simplefilter("ignore")
                    dump_one(frame(k, fmt), p)
                texts.append(open(p).read())
            fjobs.append((fmt, fname, texts, "truncate"))
            fjobs.append((fmt, fname, texts, "corrupt"))
    for fmt, fname, maker in (("gromacs", "t.gro", gro_frame), ("extxyz", "t.extxyz", extxyz_frame)):
        for seq in ((0, 1, 2), (3, 2, 0, 1)):
            texts = [maker(k) for k in seq]
            fjobs.append((fmt, fname, texts, "truncate"))
            fjobs.append((fmt, fname, texts, "corrupt"))
    pmap(ctx, fault_worker, fjobs, chunk=1)
    read_sequences(ctx)
    fchk_trajectories(ctx)
    ctx.cov.update(sequences=len(seqs), dump_jobs=len(jobs), fault_files=len(fjobs))
    ctx.exhaustive = True
    ctx.rule = (
        f"all frame sequences of length <= {maxlen} (thorough: <= 5 plus one 50-frame sequence) over a menu of 6 frames (1/2/3/11 atoms, titles present/absent/numeric, bonds, charges) x 4 dump_many formats x "
        "{list, generator, generator raising at every item}; reloaded frames are compared bit-exactly with a per-frame dump_one+load_one; pulls and writes share one event log (laziness). "
        "Read side: all sequences of length <= 3 (thorough: 5) over 5-6 heterogeneous frame texts per format from independent writers (blank/numeric titles, optional bond/charge/velocity sections, "
        "differing extXYZ Properties lists) for XYZ, SDF, MOL2, PDB, GRO, extXYZ; every yielded frame is compared bit-exactly with the same text loaded alone in a fresh forked process, and a single load "
        "after the trajectory must still agree with it. Fault enumeration on 2-3 multi-frame files per format (XYZ, PDB, MOL2, SDF from dump_one texts; GRO and extXYZ from independent mini writers): truncation after every line, "
        "every numeric field of every non-last frame replaced by each of {x, 1e, -, 999999}. FCHK optimisation/IRC/scan trajectories of the corpus against an independent parse of counts and energies."
    )
    ctx.assumptions += ["a truncated or corrupted *last* frame may be dropped silently (indistinguishable from a shorter file); the statement only forbids yielding a partial frame without warning/error",
                        "a corrupted field may legitimately change only that frame's value or be ignored (unused column)"]


def replay(ctx, payload):
    run(ctx)
    ctx.violations = [v for v in ctx.violations if v.sig == payload["signature"]]
