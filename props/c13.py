"""C13 - trajectories keep every frame, in order, each identical to a single load (sequence enumeration + FE)."""

from __future__ import annotations

import itertools
import os
import shutil
import warnings

import numpy as np

from mc import faultio, fe
from mc.core import CORPUS
from props import roundtrip
from ref import periodic, units

LEVEL = "fault_enumeration"
DUMP_FORMATS = {"xyz": "t.xyz", "pdb": "t.pdb", "mol2": "t.mol2", "sdf": "t.sdf"}
NFRAME_MENU = 6


def frame(k, fmt):
    """Frame k of the menu as an IOData object suited to format fmt."""
    from iodata import IOData

    natom = [3, 1, 2, 11, 3, 2][k]
    z = np.array([[8, 1, 1], [10], [17, 11], [6, 1, 1, 1, 1, 7, 8, 16, 1, 1, 35], [7, 1, 1], [1, 9]][k])
    xyz = (np.arange(3.0 * natom).reshape(natom, 3) * 0.125 + 0.25 * (k + 1) - ((np.arange(natom) % 2) * 0.5)[:, None]) * units.angstrom
    title = ["frame A", None, "12345", "the big one", "frame E", "   6   "][k]
    kw = dict(atnums=z, atcoords=xyz)
    if title is not None and title.strip():
        kw["title"] = title.strip()
    if fmt in ("sdf", "mol2", "pdb") and natom >= 2 and k in (0, 3, 4):
        kw["bonds"] = np.array([[0, j, 1 if fmt != "pdb" else 8] for j in range(1, min(natom, 4))])
    if fmt == "mol2":
        kw["atcharges"] = {"mol2charges": np.round(np.linspace(-0.5, 0.5, natom) + 0.01 * k, 4)}
    if fmt == "pdb":
        kw["extra"] = {}
    return IOData(**kw)


def single_text_and_obj(fr, fmt, tmp):
    from iodata import dump_one, load_one

    path = str(tmp / ("single_" + DUMP_FORMATS[fmt]))
    with warnings.catch_warnings():
        warnings.simplefilter("ignore")
        dump_one(fr, path)
        with open(path) as fh:
            text = fh.read()
        obj = load_one(path)
    return text, obj


def load_frames(path, fmt=None):
    """(frames, exception, warnings) of iterating load_many to exhaustion."""
    from iodata import load_many

    frames = []
    with warnings.catch_warnings(record=True) as wl:
        warnings.simplefilter("always")
        try:
            for o in load_many(path, fmt=fmt):
                frames.append(o)
            exc = None
        except Exception as e:  # noqa: BLE001
            exc = e
    return frames, exc, [str(w.message) for w in wl]


def seq_worker(chunk, seed, tier):
    from iodata import dump_many
    from mc.core import Part, make_scratch

    part = Part(seed, tier)
    tmp = make_scratch()
    singles = {}
    try:
        for fmt, seq, iterkind in chunk:
            part.count()
            info = {"format": fmt, "sequence": list(seq), "iterable": iterkind}
            part.nontrivial(repr(info))
            if len(part.samples) < 1 and len(seq) == 3:
                part.sample(info)
            for k in seq:
                if (fmt, k) not in singles:
                    singles[(fmt, k)] = single_text_and_obj(frame(k, fmt), fmt, tmp)
            frames = [frame(k, fmt) for k in seq]
            events = []
            raise_at = None
            if isinstance(iterkind, tuple):
                raise_at = iterkind[1]

            def gen():
                for i, f in enumerate(frames):
                    if raise_at is not None and i == raise_at:
                        events.append(("raise", i))
                        raise KeyError("caller's iterable failed")
                    events.append(("pull", i))
                    yield f
                events.append(("exhausted", len(frames)))

            arg = list(frames) if iterkind == "list" else gen()
            path = str(tmp / DUMP_FORMATS[fmt])
            if os.path.exists(path):
                os.remove(path)
            with faultio.OpenPatch() as op, warnings.catch_warnings():
                warnings.simplefilter("ignore")
                op.log = events  # writes and pulls share one event log
                try:
                    dump_many(arg, path)
                    exc = None
                except Exception as e:  # noqa: BLE001
                    exc = e
            sig0 = f"{fmt}:dump_many"
            if raise_at is not None:
                # the caller's exception must escape (as itself or wrapped), after the earlier frames were written
                ok = exc is not None and (isinstance(exc, KeyError) or isinstance(exc.__cause__, KeyError) or "caller" in repr(exc) + repr(exc.__cause__))
                part.outcome("iterable-raises", type(exc).__name__ if exc is not None else "SWALLOWED")
                if not ok:
                    part.violation("iterable-raises", f"{sig0}:caller-exception-swallowed", info, f"{fmt}: generator raised at item {raise_at}, dump_many finished with {exc!r}")
                if raise_at > 0 and os.path.exists(path):
                    got, e2, _ = load_frames(path)
                    if len(got) < raise_at and e2 is None:
                        part.violation("iterable-raises", f"{sig0}:earlier-frames-missing", info, f"{fmt}: {len(got)} frames in the file, {raise_at} were yielded before the failure")
                continue
            if exc is not None:
                part.violation("dump_many", f"{sig0}:raises-{type(exc).__name__}", info, f"{fmt} dump_many{list(seq)}: {exc!r} caused by {exc.__cause__!r}")
                continue
            # laziness: never more than one item ahead of the frame being written; pulled exactly once each
            if iterkind != "list":
                pulls = [e for e in events if e[0] in ("pull", "exhausted")]
                order_ok = [e[1] for e in pulls if e[0] == "pull"] == list(range(len(frames))) and pulls[-1][0] == "exhausted"
                ahead_ok = True
                last_pull = None
                wrote_since = True
                for e in events:
                    if e[0] == "pull":
                        if last_pull is not None and not wrote_since:
                            ahead_ok = False
                        last_pull = e[1]
                        wrote_since = False
                    elif e[0] == "write":
                        wrote_since = True
                part.outcome("lazy", "one-at-a-time" if order_ok and ahead_ok else "WRONG")
                if not order_ok:
                    part.violation("lazy", f"{sig0}:iterable-not-consumed-exactly-once", info, f"{fmt}: pull events {pulls}")
                if not ahead_ok:
                    part.violation("lazy", f"{sig0}:iterable-consumed-ahead", info, f"{fmt}: two items were pulled without a write in between: {events[:12]}")
            # reload
            got, e2, _ = load_frames(path)
            if e2 is not None:
                part.violation("reload", f"{sig0}:reload-raises-{type(e2).__name__}", info, f"{fmt}: file written by dump_many{list(seq)} fails in load_many: {e2!r}")
                continue
            if len(got) != len(seq):
                part.violation("frames", f"{sig0}:frame-count", info, f"{fmt}: wrote {len(seq)} frames, read {len(got)}")
                continue
            for i, (k, o) in enumerate(zip(seq, got)):
                d = roundtrip.first_difference(roundtrip.snapshot(singles[(fmt, k)][1]), roundtrip.snapshot(o))
                if d:
                    part.violation("frames", f"{sig0}:frame-differs-from-single-load", info, f"{fmt}: frame {i} (menu {k}) of the trajectory differs from its single save+reload: {d}")
                    break
            else:
                part.outcome("frames", "identical-to-single")
    finally:
        shutil.rmtree(tmp, ignore_errors=True)
    return part.result()


# ---- independent mini writers for the two read-only trajectory formats -----------------------------------

def gro_frame(k):
    natom = [3, 1, 2, 4][k % 4]
    lines = [f"frame {k}, t= {0.5 * k:.3f}", f"{natom:5d}"]
    for i in range(natom):
        x, y, z = 0.1 * (i + 1) + k, 1.5 - 0.25 * i, 0.125 * (i + k)
        lines.append(f"{i // 3 + 1:5d}{'SOL':<5s}{['OW', 'HW1', 'HW2'][i % 3]:>5s}{i + 1:5d}{x:8.3f}{y:8.3f}{z:8.3f}{0.1 * i:8.4f}{-0.2:8.4f}{0.3:8.4f}")
    lines.append(f"{1.5 + k:10.5f}{2.5:10.5f}{3.5:10.5f}")
    return "\n".join(lines) + "\n"


def extxyz_frame(k):
    natom = [3, 1, 2, 4][k % 4]
    syms = ["O", "H", "H", "C"]
    lines = [str(natom), f'Lattice="{5.0 + k} 0.0 0.0 0.0 6.0 0.0 0.0 0.0 7.0" Properties=species:S:1:pos:R:3 energy={-1.5 * (k + 1)} pbc="T T T"']
    for i in range(natom):
        lines.append(f"{syms[i]} {0.25 * (i + 1) + k:.8f} {-0.5 * i:.8f} {0.125 * k:.8f}")
    return "\n".join(lines) + "\n"


def fault_worker(chunk, seed, tier):
    """Truncation at every line and corruption of every numeric field of a multi-frame file."""
    from iodata import load_one
    from mc.core import Part, make_scratch

    part = Part(seed, tier)
    tmp = make_scratch()
    try:
        for fmt, fname, texts, mode in chunk:
            full = "".join(texts)
            path = str(tmp / fname)
            # reference: each frame loaded alone
            singles = []
            for t in texts:
                with open(path, "w") as fh:
                    fh.write(t)
                with warnings.catch_warnings():
                    warnings.simplefilter("ignore")
                    singles.append(roundtrip.snapshot(load_one(path)))
            with open(path, "w") as fh:
                fh.write(full)
            got, exc, _ = load_frames(path)
            info0 = {"format": fmt, "frames": len(texts), "fault": "none"}
            part.count()
            if exc is not None or len(got) != len(texts) or any(roundtrip.first_difference(s, roundtrip.snapshot(o)) for s, o in zip(singles, got)):
                part.violation("frames", f"{fmt}:load_many:intact-file", info0, f"{fmt}: intact {len(texts)}-frame file: {len(got)} frames, exception {exc!r}")
                continue
            part.outcome("intact", f"{len(texts)}-frames-in-order")
            offsets = np.cumsum([0] + [len(t) for t in texts])
            if mode == "truncate":
                for key, mutated in fe.line_truncations(full):
                    part.count()
                    part.nontrivial((fmt, fname, key))
                    with open(path, "w") as fh:
                        fh.write(mutated)
                    got, exc, wl = load_frames(path)
                    ncomplete = int(np.searchsorted(offsets, len(mutated), side="right") - 1)
                    info = {"format": fmt, "frames": len(texts), "fault": list(key), "complete_frames": ncomplete}
                    # every yielded frame that is not reported (warning/error) must be identical to the full-file frame
                    bad = None
                    for i, o in enumerate(got):
                        if i < len(singles) and roundtrip.first_difference(singles[i], roundtrip.snapshot(o)) is None:
                            continue
                        bad = i
                        break
                    if bad is not None and not wl and exc is None:
                        part.violation("truncation", f"{fmt}:load_many:partial-frame-without-warning", info, f"{fmt}: file cut after {key[1]} lines yields a frame {bad} that differs from the complete frame, without warning or error")
                    elif len(got) < ncomplete and exc is None:
                        part.violation("truncation", f"{fmt}:load_many:complete-frame-lost", info, f"{fmt}: file cut after {key[1]} lines holds {ncomplete} complete frames, {len(got)} were yielded")
                    else:
                        part.outcome("truncation", "dropped" if bad is None and exc is None else ("warned" if exc is None else "raised"))
            else:
                for key, mutated, pos in fe.numeric_field_substitutions(full):
                    j = int(np.searchsorted(offsets, pos, side="right") - 1)
                    if j >= len(texts) - 1:
                        continue  # a corrupted last frame is indistinguishable from truncation (judged by that clause)
                    part.count()
                    part.nontrivial((fmt, fname, key[1], key[2]))
                    with open(path, "w") as fh:
                        fh.write(mutated)
                    got, exc, wl = load_frames(path)
                    info = {"format": fmt, "frames": len(texts), "fault": list(key), "corrupted_frame": j}
                    if len(part.samples) < 1:
                        part.sample(info)
                    before_ok = all(i < len(got) and roundtrip.first_difference(singles[i], roundtrip.snapshot(got[i])) is None for i in range(j))
                    if exc is not None:
                        ok = type(exc).__name__ == "LoadError" and len(got) == j and before_ok
                        part.outcome("corruption", "LoadError-at-frame" if ok else "raised-elsewhere")
                        if type(exc).__name__ != "LoadError":
                            part.violation("corruption", f"{fmt}:load_many:corrupt-frame-raises-{type(exc).__name__}", info, f"{fmt}: {exc!r}")
                        elif len(got) > j or not before_ok:
                            # frames after/including the corrupted one were yielded before the error: only a problem if they differ silently
                            if not before_ok:
                                part.violation("corruption", f"{fmt}:load_many:earlier-frame-changed", info, f"{fmt}: corrupting frame {j} changed an earlier frame")
                    else:
                        others_ok = len(got) == len(texts) and all(roundtrip.first_difference(singles[i], roundtrip.snapshot(got[i])) is None for i in range(len(texts)) if i != j)
                        if len(got) < len(texts):
                            part.violation("corruption", f"{fmt}:load_many:sequence-ends-silently", info,
                                           f"{fmt}: field {key[1]} of frame {j} replaced by {key[2]!r}: only {len(got)} of {len(texts)} frames yielded, no error")
                        elif not others_ok:
                            part.violation("corruption", f"{fmt}:load_many:other-frame-changed", info, f"{fmt}: corrupting frame {j} changed another frame or the frame count ({len(got)})")
                        else:
                            part.outcome("corruption", "value-changed-or-ignored-column")
    finally:
        shutil.rmtree(tmp, ignore_errors=True)
    return part.result()


def fchk_trajectories(ctx):
    from iodata import load_many

    for fn in ("peroxide_opt.fchk", "peroxide_irc.fchk", "peroxide_relaxed_scan.fchk", "peroxide_tsopt.fchk"):
        ctx.count()
        ctx.nontrivial(("fchk", fn))
        path = str(CORPUS / fn)
        with warnings.catch_warnings():
            warnings.simplefilter("ignore")
            frames = list(load_many(path))
        # independent parse of the counts and the energies
        text = open(path).read().splitlines()
        nsteps = []
        energies = []
        i = 0
        while i < len(text):
            line = text[i]
            if line.startswith(("Optimization Number of geometries", "IRC Number of geometries")):
                n = int(line.split("N=")[1])
                vals = []
                while len(vals) < n:
                    i += 1
                    vals += [int(w) for w in text[i].split()]
                nsteps = vals
            if "Results for each geome" in line:
                n = int(line.split("N=")[1])
                vals = []
                while len(vals) < n:
                    i += 1
                    vals += [float(w) for w in text[i].split()]
                energies += vals[::2]
            i += 1
        got_e = [f.energy for f in frames]
        order = [(f.extra["ipoint"], f.extra["istep"]) for f in frames]
        ok = len(frames) == len(energies) and got_e == energies and order == sorted(order) and len(set(order)) == len(order)
        ctx.outcome("fchk-trajectory", f"{len(frames)}-frames-in-file-order" if ok else "WRONG")
        if not ok:
            ctx.violation("frames", f"fchk:load_many:{fn}", {"file": fn}, f"{fn}: {len(frames)} frames, {len(energies)} energies in the file (steps per point {nsteps}); order {order[:5]}")


def run(ctx):
    from mc.pool import pmap

    maxlen = 3
    seqs = [s for n in range(1, maxlen + 1) for s in itertools.product(range(NFRAME_MENU), repeat=n)]
    if ctx.thorough:
        seqs += [s for s in itertools.product(range(NFRAME_MENU), repeat=4)]
        seqs.append(tuple(i % NFRAME_MENU for i in range(50)))
    jobs = []
    for fmt in DUMP_FORMATS:
        for s in seqs:
            jobs.append((fmt, s, "list"))
            jobs.append((fmt, s, "generator"))
            if len(s) <= 3:
                for j in range(len(s)):
                    jobs.append((fmt, s, ("raising", j)))
    pmap(ctx, seq_worker, jobs, chunk=32)
    # fault enumeration on multi-frame files
    from iodata import dump_one
    tmp = ctx.scratch()
    fjobs = []
    for fmt, fname in DUMP_FORMATS.items():
        for seq in ((0, 1, 2), (3, 5, 4)) + (((2, 0, 3, 1),) if ctx.thorough else ()):
            texts = []
            for k in seq:
                p = str(tmp / fname)
                with warnings.catch_warnings():
                    warnings.simplefilter("ignore")
                    dump_one(frame(k, fmt), p)
                texts.append(open(p).read())
            fjobs.append((fmt, fname, texts, "truncate"))
            fjobs.append((fmt, fname, texts, "corrupt"))
    for fmt, fname, maker in (("gromacs", "t.gro", gro_frame), ("extxyz", "t.extxyz", extxyz_frame)):
        for seq in ((0, 1, 2), (3, 2, 0, 1)):
            texts = [maker(k) for k in seq]
            fjobs.append((fmt, fname, texts, "truncate"))
            fjobs.append((fmt, fname, texts, "corrupt"))
    pmap(ctx, fault_worker, fjobs, chunk=1)
    fchk_trajectories(ctx)
    ctx.cov.update(sequences=len(seqs), dump_jobs=len(jobs), fault_files=len(fjobs))
    ctx.exhaustive = True
    ctx.rule = (
        f"all frame sequences of length <= {maxlen} (thorough: <= 4 plus one 50-frame sequence) over a menu of 6 frames (1/2/3/11 atoms, titles present/absent/numeric, bonds, charges) x 4 dump_many formats x "
        "{list, generator, generator raising at every item}; reloaded frames are compared bit-exactly with a per-frame dump_one+load_one; pulls and writes share one event log (laziness). "
        "Fault enumeration on 2-3 multi-frame files per format (XYZ, PDB, MOL2, SDF from dump_one texts; GRO and extXYZ from independent mini writers): truncation after every line, "
        "every numeric field of every non-last frame replaced by each of {x, 1e, -, 999999}. FCHK optimisation/IRC/scan trajectories of the corpus against an independent parse of counts and energies."
    )
    ctx.assumptions += ["a truncated or corrupted *last* frame may be dropped silently (indistinguishable from a shorter file); the statement only forbids yielding a partial frame without warning/error",
                        "a corrupted field may legitimately change only that frame's value or be ignored (unused column)"]


def replay(ctx, payload):
    run(ctx)
    ctx.violations = [v for v in ctx.violations if v.sig == payload["signature"]]
