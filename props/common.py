"""Harness-side helpers shared by several property modules (these may import iodata)."""

from __future__ import annotations

import numpy as np

from ref import gto


def plain(obasis):
    """iodata MolecularBasis -> plain data understood by ref.gto (attribute access only)."""
    return [
        (int(s.icenter), [int(a) for a in s.angmoms], [str(k) for k in s.kinds], [float(e) for e in s.exponents], np.array(s.coeffs, dtype=float).tolist())
        for s in obasis.shells
    ]


def horton2_labels(lmax=9):
    """HORTON2-style (alphabetical / c0 c1 s1 ...) conventions generated here, not imported."""
    conv = {(0, "c"): ["1"]}
    for l in range(1, lmax + 1):
        conv[(l, "c")] = ["x" * a + "y" * b + "z" * c for a, b, c in gto.cart_powers(l)]
        if l >= 2:
            conv[(l, "p")] = ["c0"] + [x for m in range(1, l + 1) for x in (f"c{m}", f"s{m}")]
    return conv


def scramble(labels, k):
    """Deterministic non-trivial signed permutation of a label list (k selects one)."""
    n = len(labels)
    labs = [gto.parse_label(x)[1] for x in labels]
    order = sorted(range(n), key=lambda i: ((i * (2 * k + 3) + k) % n, i))
    out = []
    for j, i in enumerate(order):
        neg = (j * (k + 2) + k) % 3 == 0
        out.append(("-" if neg else "") + labs[i])
    return out


def convention_tables(lmax=9):
    """Full-coverage convention dictionaries: each format table completed with HORTON2 entries where it is silent."""
    from iodata.convert import CCA_CONVENTIONS
    from iodata.formats import fchk, molden, mwfn, wfn

    base = horton2_labels(lmax)
    out = {"horton2": base}

    def complete(tab):
        d = {k: list(v) for k, v in base.items()}
        for k, v in tab.items():
            if k in d:
                d[k] = list(v)
        return d

    out["fchk"] = complete(fchk.CONVENTIONS)
    out["molden"] = complete(molden.CONVENTIONS)
    out["wfn"] = complete(wfn.CONVENTIONS)
    out["mwfn"] = complete(mwfn.CONVENTIONS)
    out["cca"] = complete(CCA_CONVENTIONS)
    out["scr1"] = {k: scramble(v, 1) for k, v in base.items()}
    out["scr2"] = {k: scramble(v, 2) for k, v in base.items()}
    return out


def signed_perm_matrix(conv_src, conv_dst):
    """P with v_dst = P v_src, built from labels."""
    n = len(conv_src)
    p = np.zeros((n, n))
    src = {gto.parse_label(x)[1]: (i, gto.parse_label(x)[0]) for i, x in enumerate(conv_src)}
    for j, x in enumerate(conv_dst):
        s2, lab = gto.parse_label(x)
        i, s1 = src[lab]
        p[j, i] = s1 * s2
    return p


def lowdin_orthonormal(s, seed_matrix):
    """Columns C with C^T S C = I, from a fixed seed matrix: C = M (M^T S M)^(-1/2)."""
    m = seed_matrix
    g = m.T @ s @ m
    w, v = np.linalg.eigh((g + g.T) / 2)
    return m @ (v / np.sqrt(w)) @ v.T


def int_matrix(n, m, seed):
    a = np.empty((n, m))
    x = 4321 + 131 * seed + 7 * n + m
    for i in range(n):
        for j in range(m):
            x = (x * 1103515245 + 12345) % 2147483648
            a[i, j] = ((x >> 16) % 17 - 8) / 4.0
    a[: min(n, m), : min(n, m)] += 3 * np.eye(min(n, m))
    return a
