"""Pool of API calls for C16 and the process-state snapshot.  Importable both by the check and by the
fresh-interpreter baseline runner (python -m props.c16calls <index> <workdir>)."""

from __future__ import annotations

import hashlib
import json
import os
import sys
import warnings

import numpy as np

CORPUS_FILES = [
    "water.xyz", "water_trajectory.xyz", "water_single.pdb", "water_trajectory.pdb", "caffeine.mol2", "example.sdf", "water.gro", "crambin.crd",
    "h2o_sto3g.fchk", "peroxide_opt.fchk", "h2o.molden.input", "h2_sto3g.mkl", "he_s_orbital.wfn", "water_sto3g_hf.wfx", "he_spdfgh_virtual_fchk_multiwfn3.7.mwfn",
    "FCIDUMP.psi4.h2", "POSCAR.water", "cubegen_h2o_5points.cube", "water_sto3g_hf_g03.log", "water.com", "PCGamess_PUNCH.dat", "water_orca.out",
    "water_hf_ccpvtz_freq_qchem.out", "atom_si.cp2k.out", "water_extended_trajectory.xyz", "LiCl_molecule.json", "nh3_orca.molden", "CHGCAR.water", "LOCPOT.oxygen", "mgo.xyz", "al_fcc.xyz",
]


def corpus():
    from mc.core import CORPUS

    have = set(os.listdir(CORPUS))
    return [f for f in CORPUS_FILES if f in have]


def digest_obj(obj):
    from props import roundtrip

    return hashlib.blake2b(repr(roundtrip.snapshot(obj)).encode(), digest_size=12).hexdigest()


def build_pool():
    """List of (label, callable(workdir) -> result) ; results are JSON-able digests."""
    from mc.core import CORPUS

    pool = []

    def loader(fn, many, fmt):
        def call(work):
            from iodata import load_many, load_one

            p = str(CORPUS / fn)
            if many:
                return [digest_obj(o) for o in load_many(p, fmt=fmt)]
            return digest_obj(load_one(p, fmt=fmt))

        return call

    for fn in corpus():
        fmt = "json_qcschema" if fn.endswith(".json") else ("qchemlog" if "qchem" in fn else ("extxyz" if ("extended" in fn or fn in ("mgo.xyz", "al_fcc.xyz")) else None))
        pool.append((f"load_one:{fn}", loader(fn, False, fmt)))
    for fn in ("water_trajectory.xyz", "water_trajectory.pdb", "peroxide_opt.fchk", "water.gro", "caffeine.mol2", "example.sdf"):
        if fn in corpus():
            pool.append((f"load_many:{fn}", loader(fn, True, None)))

    def dumper(name, many):
        def call(work):
            from iodata import dump_many, dump_one
            from props import roundtrip

            spec = roundtrip.all_specs()[name]
            case = {n: m[0] for n, m in spec.space}
            obj, dkw, _ = spec.build(case, 0)
            path = os.path.join(work, ("many_" if many else "") + spec.fname)
            if many:
                dump_many([obj, obj], path, fmt=spec.fmt, **dkw)
            else:
                dump_one(obj, path, fmt=spec.fmt, **dkw)
            with open(path, "rb") as fh:
                return hashlib.blake2b(fh.read(), digest_size=12).hexdigest()

        return call

    from props import roundtrip

    for name in roundtrip.all_specs():
        pool.append((f"dump_one:{name}", dumper(name, False)))
    for name in ("xyz", "pdb", "mol2", "sdf"):
        pool.append((f"dump_many:{name}", dumper(name, True)))

    def wf_dumper(target, conv, shellset=None):
        def call(work):
            from iodata import dump_one
            from props import wfn

            case = {n: m[0] for n, m in wfn.SPACE}
            case["conventions"] = conv
            case["shellset"] = shellset or ("+f-cart" if target in ("wfn", "wfx") else "+d-cart")
            case["extras"] = "rdm-scf"
            obj, _ = wfn.build(case, target, 0)
            path = os.path.join(work, f"{conv}_{shellset}_" + wfn.TARGETS[target])
            dump_one(obj, path)
            with open(path, "rb") as fh:
                return hashlib.blake2b(fh.read(), digest_size=12).hexdigest()

        return call

    for target in ("fchk", "molden", "molekel", "wfn", "wfx"):
        for conv in ("own", "horton2", "scr1"):
            pool.append((f"dump_one:{target}:conventions={conv}", wf_dumper(target, conv)))
    # the same writer on bases of another make-up (pure / no d and f functions): what one dump derives from its basis must not reach the next
    for target, shellset in (("molden", "+d-pure"), ("molden", "sp"), ("molden", "+f-pure"), ("molekel", "+d-pure"), ("molekel", "sp"), ("fchk", "+d-pure"), ("fchk", "sp")):
        pool.append((f"dump_one:{target}:shellset={shellset}", wf_dumper(target, "own", shellset)))

    def inputs(prog):
        def call(work):
            from iodata import IOData, write_input

            d = IOData(atnums=np.array([8, 1, 1]), atcoords=np.array([[0.0, 0, 0], [0, 1.5, 0], [0, 0, 1.5]]), charge=0, spinpol=0)
            path = os.path.join(work, f"{prog}.inp")
            write_input(d, path, prog)
            with open(path, "rb") as fh:
                return hashlib.blake2b(fh.read(), digest_size=12).hexdigest()

        return call

    pool.append(("write_input:gaussian", inputs("gaussian")))
    pool.append(("write_input:orca", inputs("orca")))

    # failing calls
    def failing(kind):
        def call(work):
            from iodata import IOData, dump_one, load_one, write_input

            ghost = IOData(atnums=np.array([0, 1]), atcoords=np.array([[0.0, 0, 0], [0, 0, 1.5]]), charge=0, spinpol=0, atcorenums=np.array([0.0, 1.0]))
            if kind == "missing-attribute":
                dump_one(IOData(atnums=np.array([1])), os.path.join(work, "x.xyz"))
            elif kind == "unknown-format":
                load_one(os.path.join(work, "nothing.unknownext"))
            elif kind == "unknown-program":
                write_input(ghost, os.path.join(work, "x.inp"), "nwchem")
            elif kind.startswith("ghost:"):
                fmt = kind.split(":")[1]
                fname = {"xyz": "g.xyz", "pdb": "g.pdb", "sdf": "g.sdf", "mol2": "g.mol2", "cube": "g.cube", "poscar": "POSCAR_g"}[fmt]
                if fmt == "pdb":
                    ghost.extra = {}
                if fmt == "poscar":
                    ghost.cellvecs = np.eye(3) * 5
                if fmt == "cube":
                    from iodata.utils import Cube

                    ghost.cube = Cube(origin=np.zeros(3), axes=np.eye(3), data=np.zeros((1, 1, 2)))
                dump_one(ghost, os.path.join(work, fname))
            elif kind == "ghost-wfx":
                from props import wfn

                case = {n: m[0] for n, m in wfn.SPACE}
                case["centers"] = "3+ghost"
                obj, _ = wfn.build(case, "wfx", 0)
                path = os.path.join(work, "ghost.wfx")
                dump_one(obj, path)
                with open(path, "rb") as fh:
                    return hashlib.blake2b(fh.read(), digest_size=12).hexdigest()
            elif kind == "truncated-file":
                from mc.core import CORPUS

                text = (CORPUS / "water.xyz").read_text().splitlines(keepends=True)
                p = os.path.join(work, "cut.xyz")
                with open(p, "w") as fh:
                    fh.write("".join(text[:3]))
                load_one(p)
            return "no-exception"

        return call

    def damaged(fn, fmt):
        """A corpus file with one section removed (WFX: the required <Number of Electrons> section; others: three lines
        one third into the file): whatever the loader makes of it alone, it must make of it after any history."""
        def call(work):
            from iodata import load_one
            from mc.core import CORPUS

            lines = (CORPUS / fn).read_text().splitlines(keepends=True)
            if fn.endswith(".wfx"):
                i = next(k for k, ln in enumerate(lines) if ln.strip() == "<Number of Electrons>")
                j = next(k for k, ln in enumerate(lines) if ln.strip() == "</Number of Electrons>")
                lines = lines[:i] + lines[j + 1 :]
            else:
                i = len(lines) // 3
                lines = lines[:i] + lines[i + 3 :]
            p = os.path.join(work, "damaged_" + fn)
            with open(p, "w") as fh:
                fh.write("".join(lines))
            return digest_obj(load_one(p, fmt=fmt))

        return call

    for fn, fmt in (("h2_ub3lyp_ccpvtz.wfx", None), ("h2o_sto3g.wfn", None), ("h2o_sto3g.fchk", None), ("h2o.molden.input", None), ("h2_sto3g.mkl", None),
                    ("ch3_hf_sto3g_fchk_multiwfn3.7.mwfn", None), ("atom_om2.cp2k.out", None), ("water_hf_ccpvtz_freq_qchem.out", "qchemlog"), ("water_single.pdb", None),
                    ("water.mol2", None), ("example.sdf", None), ("cubegen_h2o_5points.cube", None)):
        pool.append((f"damaged:{fn}", damaged(fn, fmt)))
    for kind in ("missing-attribute", "unknown-format", "unknown-program", "ghost:xyz", "ghost:pdb", "ghost:sdf", "ghost:mol2", "ghost:cube", "ghost:poscar", "ghost-wfx", "truncated-file"):
        pool.append((f"failing:{kind}", failing(kind)))
    return pool


def execute(call, work):
    """Run one pool call; returns a JSON-able record of everything observable."""
    with warnings.catch_warnings(record=True) as wl:
        warnings.simplefilter("always")
        try:
            res = call(work)
            out = {"result": res}
        except Exception as exc:  # noqa: BLE001
            out = {"exception": type(exc).__name__, "message": str(exc).replace(work, "<work>")}
    out["warnings"] = sorted({f"{w.category.__name__}:{str(w.message).replace(work, '<work>')}" for w in wl})
    return out


def state_snapshot():
    """Deep snapshot of every module-level table the statement names, plus the warnings machinery."""
    import iodata.api
    import iodata.convert
    import iodata.overlap_cartpure
    import iodata.periodic
    import iodata.utils
    from iodata.formats import cp2klog, fchk, molden, mwfn, wfn, xyz

    def tab(d):
        return repr(sorted((repr(k), repr(v)) for k, v in d.items()))

    snap = {
        "num2sym": tab(iodata.periodic.num2sym), "sym2num": tab(iodata.periodic.sym2num), "num2bond": tab(iodata.periodic.num2bond), "bond2num": tab(iodata.periodic.bond2num),
        "HORTON2": tab(iodata.convert.HORTON2_CONVENTIONS), "CCA": tab(iodata.convert.CCA_CONVENTIONS),
        "fchk.CONVENTIONS": tab(fchk.CONVENTIONS), "molden.CONVENTIONS": tab(molden.CONVENTIONS), "wfn.CONVENTIONS": tab(wfn.CONVENTIONS),
        "mwfn.CONVENTIONS": tab(mwfn.CONVENTIONS), "cp2klog.CONVENTIONS": tab(cp2klog.CONVENTIONS), "wfn.PRIMITIVE_NAMES": repr(wfn.PRIMITIVE_NAMES),
        "tfs": hashlib.blake2b(b"".join(np.ascontiguousarray(t).tobytes() for t in iodata.overlap_cartpure.tfs), digest_size=12).hexdigest(),
        "FORMAT_MODULES": repr(sorted((k, v.__name__) for k, v in iodata.api.FORMAT_MODULES.items())), "INPUT_MODULES": repr(sorted(iodata.api.INPUT_MODULES)),
        "STRTOBOOL": tab(iodata.utils.STRTOBOOL),
        "units": repr([getattr(iodata.utils, n) for n in ("angstrom", "electronvolt", "meter", "nanometer", "second", "picosecond", "amu", "kcalmol", "calmol", "kjmol")]),
        "xyz.DEFAULT_ATOM_COLUMNS": repr([(c[0], c[1], c[2], c[3]) for c in xyz.DEFAULT_ATOM_COLUMNS]),
        "patterns": repr(sorted((k, tuple(v.PATTERNS)) for k, v in iodata.api.FORMAT_MODULES.items())),
    }
    return snap


def tables_fingerprint():
    """Cheap fingerprint of the module-level tables (keys, values and their order); used while a call is in progress."""
    import iodata.convert
    import iodata.periodic
    import iodata.utils
    from iodata.formats import cp2klog, fchk, molden, mwfn, wfn

    flat = (iodata.periodic.num2sym, iodata.periodic.sym2num, iodata.periodic.num2bond, iodata.periodic.bond2num, iodata.utils.STRTOBOOL)
    nested = (iodata.convert.HORTON2_CONVENTIONS, iodata.convert.CCA_CONVENTIONS, fchk.CONVENTIONS, molden.CONVENTIONS, wfn.CONVENTIONS, mwfn.CONVENTIONS, cp2klog.CONVENTIONS)
    return hash((tuple((tuple(d), tuple(d.values())) for d in flat), tuple((tuple(d), tuple(map(tuple, d.values()))) for d in nested), tuple(wfn.PRIMITIVE_NAMES)))


def warnings_state():
    return {"filters": repr(warnings.filters), "showwarning": warnings.showwarning is warnings._showwarning_orig, "showwarnmsg_impl": warnings._showwarnmsg_impl.__name__,
            "numpy_err": repr(sorted(np.geterr().items()))}


if __name__ == "__main__":
    # fresh-interpreter baseline: python -m props.c16calls <workdir> <index> [<index> ...] ; one call per process when a single index is given
    work = sys.argv[1]
    pool = build_pool()
    out = {}
    for idx in sys.argv[2:]:
        label, call = pool[int(idx)]
        out[label] = execute(call, work)
    json.dump(out, sys.stdout)
