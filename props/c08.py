"""C08 - dump failures follow the error contract; pre-flight errors spare existing files (FE + full products)."""

from __future__ import annotations

import itertools
import os
import shutil
import warnings

import numpy as np

from mc import audit, faultio
from props import roundtrip, wfn

LEVEL = "fault_enumeration"
SENTINEL = b"previous content \x00\xff that must survive\n"
MANY = ("xyz", "pdb", "mol2", "sdf")


def default_obj(name, seed, small=True):
    spec = roundtrip.all_specs()[name]
    case = {n: m[0] for n, m in spec.space}
    if "natom" in case:
        case["natom"] = 3
    obj, dkw, _ = spec.build(case, seed)
    return spec, obj, dkw


def call_dump(kind, obj_or_seq, path, fmt, allow, dkw):
    from iodata import dump_many, dump_one

    if kind == "one":
        return dump_one(obj_or_seq, path, fmt=fmt, allow_changes=allow, **dkw)
    return dump_many(obj_or_seq, path, fmt=fmt, allow_changes=allow, **dkw)


def guarded(part, label, info, fn, path, expect, sig, pre_existing):
    """Run fn under audit + open patch; judge exception type, file preservation, handle closure.

    expect: set of acceptable exception class names, or {"ok"}.
    Returns the exception (or None).
    """
    if pre_existing:
        with open(path, "wb") as fh:
            fh.write(SENTINEL)
        mtime = os.stat(path).st_mtime_ns
    elif os.path.exists(path):
        os.remove(path)
    with faultio.OpenPatch() as op, audit.Recorder() as rec, warnings.catch_warnings():
        warnings.simplefilter("ignore")
        try:
            fn()
            exc = None
        except BaseException as e:  # noqa: BLE001
            exc = e
    name = "ok" if exc is None else type(exc).__name__
    part.outcome("outcome", ":".join(sig.split(":")[:3]).split(",")[0] + " -> " + name)
    if name not in expect:
        part.violation("exception-type", f"{sig}:raises-{name}-expected-{'/'.join(sorted(expect))}", info, f"{label}: outcome {name} ({exc!r}), expected {sorted(expect)}")
    unclosed = op.left_open  # (recorded by OpenPatch before it cleans up)
    if unclosed:
        part.violation("closed", f"{sig}:file-left-open", info, f"{label}: output file not closed after {name}")
    return exc, rec, op


def preflight(part, label, info, fn, path, sig, pre_existing, expect=("PrepareDumpError",)):
    """A pre-flight rejection: exception type + target untouched."""
    exc, rec, op = guarded(part, label, info, fn, path, set(expect), sig, pre_existing)
    if exc is None or type(exc).__name__ not in expect:
        return
    touched = rec.opened_for_write(path) or op.files
    if pre_existing:
        with open(path, "rb") as fh:
            same = fh.read() == SENTINEL
        if not same or touched:
            part.violation("preserved", f"{sig}:existing-file-overwritten", info, f"{label}: {type(exc).__name__} raised but the existing target was opened for writing / changed")
        else:
            part.outcome("preserved", "bytes-unchanged")
    else:
        if os.path.exists(path) or touched:
            part.violation("preserved", f"{sig}:file-created", info, f"{label}: {type(exc).__name__} raised but the target file was created")
        else:
            part.outcome("preserved", "not-created")


def required_worker(chunk, seed, tier):
    from mc.core import Part, make_scratch

    part = Part(seed, tier)
    tmp = make_scratch()
    try:
        for name, kind, subset, allow, pre in chunk:
            part.count()
            spec, obj, dkw = default_obj(name, seed)
            feasible = True
            for a in sorted(subset, key=lambda a: (a not in ("mo", "obasis"), a)):
                try:
                    setattr(obj, a, None)
                except TypeError:
                    feasible = False  # e.g. charge cannot be cleared while orbitals define the electron count
            if not feasible or any(getattr(obj, a) is not None for a in subset):
                part.outcome("generator", "infeasible-subset")
                continue
            path = str(tmp / spec.fname)
            info = {"format": name, "operation": "dump_" + kind, "none_attributes": list(subset), "allow_changes": allow, "pre_existing": pre}
            part.nontrivial(repr(info))
            if len(part.samples) < 1 and len(subset) == 2:
                part.sample(info)
            if kind == "many-later":
                # the faulty object as the second frame after an intact one: the per-frame check must reject it as it does the first
                good = default_obj(name, seed + 1)[1]
                sig = f"{name}:dump_many:later-frame-required-None:{','.join(subset)}"
                guarded(part, f"{name}.dump_many, second frame with {list(subset)}=None", info, lambda: call_dump("many", [good, obj], path, spec.fmt, allow, dkw), path, {"PrepareDumpError"}, sig, pre)
                continue
            arg = obj if kind == "one" else [obj, obj]
            sig = f"{name}:dump_{kind}:required-None:{','.join(subset)}"
            preflight(part, f"{name}.dump_{kind} with {list(subset)}=None", info, lambda: call_dump(kind, arg, path, spec.fmt, allow, dkw), path, sig, pre)
    finally:
        shutil.rmtree(tmp, ignore_errors=True)
    return part.result()


REJECTIONS = {
    # reason -> (case overrides for wfn.build, targets, allow values for which PrepareDumpError is demanded)
    "generalized-contraction": (dict(contraction="gen-ss"), ("fchk", "molden", "molekel", "wfn", "wfx"), (False,)),
    "generalized-contraction-pd": (dict(contraction="gen-pd", shellset="+d-pure"), ("fchk", "molden", "molekel"), (False,)),
    "generalized-contraction-ps": (dict(contraction="gen-ps"), ("fchk", "molden", "molekel", "wfn", "wfx"), (False,)),
    "occs_aminusb": (dict(mo="aminusb"), ("molden", "molekel", "wfn", "wfx"), (False,)),
    "occs_aminusb-neg": (dict(mo="aminusb-neg"), ("molden", "molekel", "wfn", "wfx"), (False,)),
    "occs_aminusb-balanced": (dict(mo="aminusb-balanced"), ("molden", "molekel", "wfn", "wfx"), (False,)),
    "occs_aminusb-zero": (dict(mo="aminusb-zero"), ("molden", "molekel", "wfn", "wfx"), (False,)),
    "pure-functions": (dict(shellset="+d-pure"), ("wfn", "wfx"), (False, True)),
    "non-aufbau": (dict(mo="fractional"), ("fchk",), (False, True)),
    "non-aufbau-beta-hole": (dict(mo="beta-hole"), ("fchk",), (False, True)),
    "non-aufbau-aminusb": (dict(mo="aminusb"), ("fchk",), (False, True)),
    "non-aufbau-fractional-beta": (dict(mo="unrestricted-fractional-beta"), ("fchk",), (False, True)),
}


def rejection_worker(chunk, seed, tier):
    import attrs
    from iodata import IOData
    from iodata.orbitals import MolecularOrbitals
    from mc.core import Part, make_scratch

    part = Part(seed, tier)
    tmp = make_scratch()
    default = {n: m[0] for n, m in wfn.SPACE}
    try:
        for reason, target, allow, pre in chunk:
            part.count()
            info = {"reason": reason, "format": target, "allow_changes": allow, "pre_existing": pre}
            part.nontrivial(repr(info))
            fmt = None
            if reason in REJECTIONS:
                over, _, _ = REJECTIONS[reason]
                obj, _ = wfn.build(dict(default, **over), target, seed)
                path = str(tmp / wfn.TARGETS[target])
            elif reason == "generalized-orbitals":
                obj, _ = wfn.build(default, target, seed)
                nb = obj.obasis.nbasis
                obj = attrs.evolve(obj, mo=MolecularOrbitals("generalized", None, None, occs=np.array([1.0, 1.0]), coeffs=np.ones((2 * nb, 2)), energies=np.zeros(2)))
                path = str(tmp / wfn.TARGETS[target])
            elif reason in ("no-mo", "no-obasis"):
                obj, _ = wfn.build(default, target, seed)
                if reason == "no-mo":
                    obj.mo = None
                else:
                    obj.obasis = None
                path = str(tmp / wfn.TARGETS[target])
            else:  # json
                spec, obj, _ = default_obj("json_qcschema", seed)
                fmt = "json_qcschema"
                path = str(tmp / "m.json")
                if reason == "json-no-schema_name":
                    obj.extra = {k: v for k, v in obj.extra.items() if k != "schema_name"}
                elif reason == "json-qcschema_basis":
                    obj.extra = dict(obj.extra, schema_name="qcschema_basis")
                elif reason == "json-generalized-orbitals":  # spinpol (required) cannot be derived from generalized orbitals
                    obj = attrs.evolve(obj, charge=None, spinpol=None, nelec=None, mo=MolecularOrbitals("generalized", None, None, occs=np.array([1.0, 1.0]), coeffs=np.ones((4, 2)), energies=np.zeros(2)))
            sig = f"{target}:dump_one:rejection:{reason}:allow={allow}"
            preflight(part, f"{target}.dump_one [{reason}] allow_changes={allow}", info, lambda: call_dump("one", obj, path, fmt, allow, {}), path, sig, pre)
    finally:
        shutil.rmtree(tmp, ignore_errors=True)
    return part.result()


def selection_cases(ctx):
    from iodata import IOData

    tmp = ctx.scratch()
    spec, obj, dkw = default_obj("xyz", ctx.seed)
    cases = [
        ("unknown-fmt", "one", "m.xyz", "nosuchformat"), ("unknown-fmt", "many", "m.xyz", "nosuchformat"),
        ("no-pattern", "one", "m.unknownext", None), ("no-pattern", "many", "noextension", None),
        ("format-without-dump_one", "one", "m.gro", None), ("format-without-dump_one", "one", "m.xyz", "gromacs"),
        ("format-without-dump_many", "many", "m.cube", None), ("format-without-dump_many", "many", "m.xyz", "fchk"),
        ("format-without-dump_one", "one", "m.crd", None), ("format-without-dump_one", "one", "m.log", None),
    ]
    for reason, kind, fname, fmt in cases:
        for pre in (False, True):
            ctx.count()
            path = str(tmp / fname)
            info = {"reason": reason, "operation": "dump_" + kind, "filename": fname, "fmt": fmt, "pre_existing": pre}
            ctx.nontrivial(repr(info))
            arg = obj if kind == "one" else [obj]
            preflight(ctx, f"dump_{kind}({fname}, fmt={fmt})", info, lambda: call_dump(kind, arg, path, fmt, False, {}), path, f"select:{reason}:dump_{kind}", pre, expect=("FileFormatError",))


def many_worker(chunk, seed, tier):
    from iodata import load_many
    from mc.core import Part, make_scratch

    part = Part(seed, tier)
    tmp = make_scratch()
    try:
        for name, bad_index, iterkind, pre in chunk:
            part.count()
            spec = roundtrip.all_specs()[name]
            frames = []
            for i in range(3):
                _, obj, dkw = default_obj(name, seed + i)
                obj.title = f"frame {i}"
                frames.append(obj)
            fault = {"xyz": "atcoords", "pdb": "atnums", "mol2": "atcharges", "sdf": "atcoords"}[name]
            if name == "mol2":
                for o in frames:
                    if not o.atcharges:
                        o.atcharges = {"mol2charges": np.zeros(o.natom)}
            if isinstance(bad_index, int):
                setattr(frames[bad_index], fault, None)
            seq = frames if bad_index != "empty" else []
            pulled = []

            def gen():
                for i, f in enumerate(seq):
                    pulled.append(i)
                    yield f

            arg = list(seq) if iterkind == "list" else gen()
            path = str(tmp / spec.fname)
            info = {"format": name, "faulty_frame": bad_index, "iterable": iterkind, "pre_existing": pre}
            part.nontrivial(repr(info))
            if len(part.samples) < 1 and bad_index == 1:
                part.sample(info)
            sig = f"{name}:dump_many:faulty-frame-{bad_index}:{iterkind}"
            label = f"{name}.dump_many faulty frame {bad_index} ({iterkind})"
            fn = lambda: call_dump("many", arg, path, spec.fmt, False, {})  # noqa: E731
            if bad_index == "empty":
                preflight(part, label, info, fn, path, sig, pre, expect=("DumpError",))
            elif bad_index == 0:
                preflight(part, label, info, fn, path, sig, pre, expect=("PrepareDumpError",))
            elif bad_index is None:
                exc, rec, op = guarded(part, label, info, fn, path, {"ok"}, sig, pre)
                if exc is None:
                    with warnings.catch_warnings():
                        warnings.simplefilter("ignore")
                        n = len(list(load_many(path)))
                    if n != 3:
                        part.violation("frames", f"{sig}:frame-count", info, f"{label}: wrote 3 frames, file holds {n}")
            else:
                # a later faulty frame: the error must propagate, never be swallowed; the fault is a missing attribute that
                # dump_many declares as required, which the error contract (statement, dump_many docstring) maps to PrepareDumpError
                exc, rec, op = guarded(part, label, info, fn, path, {"PrepareDumpError"}, sig, pre)
                if exc is None:
                    part.violation("swallowed", f"{sig}:error-swallowed", info, f"{label}: no exception although frame {bad_index} lacks {fault}")
    finally:
        shutil.rmtree(tmp, ignore_errors=True)
    return part.result()


def write_fault_worker(chunk, seed, tier):
    from iodata import write_input
    from mc.core import Part, make_scratch

    part = Part(seed, tier)
    tmp = make_scratch()
    try:
        for name, kind in chunk:
            if kind == "input":
                _, obj, _ = default_obj("xyz", seed)
                path = str(tmp / "calc.inp")
                fn = lambda: write_input(obj, path, name)  # noqa: E731
                want = "WriteInputError"
            else:
                spec, obj, dkw = default_obj(name, seed)
                path = str(tmp / spec.fname)
                arg = obj if kind == "one" else [obj, obj]
                fn = lambda: call_dump(kind, arg, path, spec.fmt, False, dkw)  # noqa: E731
                want = "DumpError"
            # fault-free run counts the write calls
            with faultio.OpenPatch() as op, warnings.catch_warnings():
                warnings.simplefilter("ignore")
                fn()
            n = op.files[0].nwrite if op.files else 0
            cap = min(n, 200 if tier == "quick" else 2000)
            if cap < n:
                part.cov[f"write_cap_hit:{name}:{kind}"] = cap
            part.cov[f"writes:{name}:{kind}"] = n
            # (write index, kind of exception): an OSError at every write; at the first, second and last write also an exception without arguments and a DumpError
            faults = [(k, False) for k in range(1, cap + 1)] + [(k, kind) for k in sorted({1, 2, cap}) if 1 <= k <= cap for kind in (True, "DumpError")]
            for k, bare in faults:
                part.count()
                part.nontrivial((name, kind, k, bare))
                info = {"format": name, "operation": kind, "fail_at_write": k, "writes_in_fault_free_run": n, **({"exception": "without arguments" if bare is True else bare} if bare else {})}
                if len(part.samples) < 1 and k == 2:
                    part.sample(info)
                with faultio.OpenPatch(fail_at=k, bare=bare) as op, warnings.catch_warnings():
                    warnings.simplefilter("ignore")
                    try:
                        fn()
                        exc = None
                    except BaseException as e:  # noqa: BLE001
                        exc = e
                got = "ok" if exc is None else type(exc).__name__
                part.outcome("write-fault", got)
                if got != want:
                    part.violation("exception-type", f"{name}:{kind}:write-fault:raises-{got}", info, f"{name} {kind}: OSError injected at write {k}/{n} surfaced as {got} ({exc!r}), expected {want}")
                if op.left_open:
                    part.violation("closed", f"{name}:{kind}:write-fault:file-left-open", info, f"{name} {kind}: file not closed after a fault at write {k}")
    finally:
        shutil.rmtree(tmp, ignore_errors=True)
    return part.result()


def input_cases(ctx):
    from iodata import write_input

    tmp = ctx.scratch()
    _, obj, _ = default_obj("xyz", ctx.seed)

    def boom(data, i):
        raise ValueError("boom")

    def boom_bare(data, i):
        raise ValueError  # no message

    cases = [
        ("unknown-program", dict(fmt="nwchem"), "FileFormatError"),
        ("unknown-field", dict(fmt="gaussian", template="{nosuch}\n{geometry}"), "WriteInputError"),
        ("atom_line-raises", dict(fmt="orca", atom_line=boom), "WriteInputError"),
        ("atom_line-raises-without-message", dict(fmt="gaussian", atom_line=boom_bare), "WriteInputError"),
        ("bad-format-spec", dict(fmt="gaussian", template="{charge:s}\n{geometry}"), "WriteInputError"),
        ("unbalanced-brace", dict(fmt="orca", template="{geometry"), "WriteInputError"),
    ]
    for prog in ("gaussian", "orca"):
        cases.append((f"unsupported-run_type-{prog}", dict(fmt=prog, _run_type="bogus"), "WriteInputError"))
    for reason, kw, want in cases:
        ctx.count()
        ctx.nontrivial(("input", reason))
        path = str(tmp / f"{reason}.inp")
        o = obj
        if "_run_type" in kw:
            import attrs

            o = attrs.evolve(obj, run_type=kw.pop("_run_type"))
        fmt = kw.pop("fmt")
        info = {"reason": reason, "program": fmt}
        if want == "FileFormatError":
            preflight(ctx, f"write_input [{reason}]", info, lambda: write_input(o, path, fmt, **kw), path, f"write_input:{reason}", False, expect=(want,))
        else:
            guarded(ctx, f"write_input [{reason}]", info, lambda: write_input(o, path, fmt, **kw), path, {want}, f"write_input:{reason}", False)


def run(ctx):
    from iodata.api import FORMAT_MODULES
    from mc.pool import pmap

    specs = roundtrip.all_specs()
    jobs = []
    nsub = 0
    for name in specs:
        mod = FORMAT_MODULES[name]
        for kind in ("one", "many"):
            fn = getattr(mod, "dump_" + kind, None)
            if fn is None:
                continue
            req = list(fn.required)
            for r in range(1, len(req) + 1):
                for subset in itertools.combinations(req, r):
                    nsub += 1
                    for allow in (False, True):
                        for pre in (False, True):
                            jobs.append((name, kind, subset, allow, pre))
                            if kind == "many":
                                jobs.append((name, "many-later", subset, allow, pre))
    pmap(ctx, required_worker, jobs, chunk=16)
    rej = []
    for reason, (_, targets, allows) in REJECTIONS.items():
        rej += [(reason, t, a, pre) for t in targets for a in allows for pre in (False, True)]
    for reason in ("generalized-orbitals", "no-mo", "no-obasis"):
        # FCHK declares neither mo nor obasis as required; without mo it fails while writing (DumpError), which the statement allows
        targets = [t for t in wfn.TARGETS if not (reason == "no-mo" and t == "fchk")]
        rej += [(reason, t, a, pre) for t in targets for a in (False, True) for pre in (False, True)]
    rej += [(r, "json_qcschema", a, pre) for r in ("json-no-schema_name", "json-qcschema_basis", "json-generalized-orbitals") for a in (False, True) for pre in (False, True)]
    pmap(ctx, rejection_worker, rej, chunk=4)
    selection_cases(ctx)
    many = [(n, b, it, pre) for n in MANY for b in (None, 0, 1, 2, "empty") for it in ("list", "generator") for pre in (False, True)]
    pmap(ctx, many_worker, many, chunk=4)
    wf = [(n, "one") for n in specs] + [(n, "many") for n in MANY] + [("gaussian", "input"), ("orca", "input")]
    pmap(ctx, write_fault_worker, wf, chunk=1)
    input_cases(ctx)
    ctx.cov.update(required_subsets=nsub, rejection_cases=len(rej), dump_many_cases=len(many), write_fault_targets=len(wf))
    ctx.exhaustive = True
    ctx.rule = (
        "full products: every non-empty subset of each format's required attributes set to None x allow_changes x target {absent, pre-existing with sentinel bytes} for all dump_one and dump_many formats (dump_many: as first frame, and as second frame after an intact one); "
        "every prepare_dump rejection reason x applicable targets; unknown/unsupported format selections; dump_many with the faulty frame at index 0/1/2, no fault, empty sequence x list/generator; "
        "an OSError injected at the k-th write call for every k of the fault-free run (cap 200; at the first, second and last write also an exception without arguments and a DumpError) for every format's dump_one, dump_many and both input writers; write_input failure reasons. "
        "Each execution is judged on exception type, bytes of the pre-existing target, audit-hook record of opens for writing, and closure of every file object opened by iodata.api."
    )
    ctx.assumptions += ["iodata.api.open is replaced from outside by a counting/faulting wrapper (no source hook)", "objects are the default C02 case of each format with 3 atoms"]


def replay(ctx, payload):
    run(ctx)
    ctx.violations = [v for v in ctx.violations if v.sig == payload["signature"]]
