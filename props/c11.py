"""C11 - charge / nelec / core charges stay consistent under any assignment history (ESB)."""

from __future__ import annotations

import numpy as np

from mc import esb

LEVEL = "model_checking"

PER_ATOM = ("atcoords", "atcorenums", "atfrozen", "atgradient", "atmasses", "atnums")


def _mo(v="MO"):
    from iodata.orbitals import MolecularOrbitals

    if v == "MO-no-occs":  # orbitals that carry no occupation numbers: their electron count and spin polarisation are unknown
        return MolecularOrbitals("restricted", 2, 2, energies=np.array([-0.5, 0.25]))
    return MolecularOrbitals("restricted", 2, 2, occs=np.array([2.0, 1.0]))


def arr(name, n):
    if name == "atcoords":
        return (np.arange(3.0 * n).reshape(n, 3) * 0.5) if n else np.zeros((0, 3))
    if name == "atgradient":
        return -np.arange(3.0 * n).reshape(n, 3) * 0.25
    if name == "atmasses":
        return np.arange(1.0, n + 1)
    if name == "atfrozen":
        return np.array([True, False, True][:n])
    raise KeyError(name)


# value menus, simplest first. Values are (label, factory)
MENU = {
    "atnums": [None, (1, 1), (8, 1), (8, 1, 1), ()],
    "atcorenums": [None, (1.0, 1.0), (6.0, 1.0), (0.0, 1.0, 1.0), ()],
    "charge": [None, 0, 1, -0.5],
    "nelec": [None, 2, 9, 1.5],
    "spinpol": [None, 0, 1],
    "mo": [None, "MO", "MO-no-occs"],
    "atcoords": [None, 2, 3, 0],
    "atmasses": [None, 2, 3, 0],
    "atgradient": [None, 2, 3],
    "atfrozen": [None, 2, 3],
}
CTOR_ARGS = ("atnums", "atcorenums", "charge", "nelec", "spinpol", "mo", "atcoords")
CTOR_VALUE = {"atnums": (8, 1), "atcorenums": (6.0, 1.0), "charge": 1, "nelec": 9, "spinpol": 1, "mo": "MO", "atcoords": 2}
READS = ("atcorenums", "charge", "nelec", "spinpol", "natom")


def value(name, v):
    if v is None:
        return None
    if name == "atnums":
        return np.array(v, dtype=int)
    if name == "atcorenums":
        return np.array(v, dtype=float)
    if name == "mo":
        return _mo(v)
    if name in ("atcoords", "atmasses", "atgradient", "atfrozen"):
        return arr(name, v)
    return v


def length(name, v):
    if v is None:
        return None
    if name in ("atnums", "atcorenums"):
        return len(v)
    return v


def all_ops(thorough):
    ops = []
    for name, menu in MENU.items():
        for v in menu:
            ops.append(("set", name, v))
    for r in READS:
        ops.append(("read", r, None))
    return ops


def ctor_events(thorough):
    evs = []
    names = CTOR_ARGS
    for mask in range(1 << len(names)):
        kw = tuple((n, CTOR_VALUE[n]) for i, n in enumerate(names) if mask >> i & 1)
        evs.append(("ctor", kw, None))
    # constructor calls with disagreeing per-atom arrays and other menu values
    evs.append(("ctor", (("atnums", (8, 1)), ("atcoords", 3)), None))
    evs.append(("ctor", (("atnums", (8, 1, 1)), ("atcorenums", (6.0, 1.0))), None))
    evs.append(("ctor", (("atcorenums", (0.0, 1.0, 1.0)), ("charge", -0.5)), None))
    evs.append(("ctor", (("atnums", (1, 1)), ("nelec", 1.5), ("spinpol", 0)), None))
    return evs


class State:
    """A real IOData object plus what the harness tracked while replaying."""

    __slots__ = ("obj", "explicit_core", "log", "ctor_error", "atnums_history")


def apply(st: State, ev, observe_between=False):
    """Apply one event to the real object; returns (ok, exc)."""
    kind, name, v = ev
    obj = st.obj
    if kind == "read":
        try:
            getattr(obj, name)
        except Exception as exc:  # noqa: BLE001 - judged in on_transition
            return False, exc
        return True, None
    try:
        setattr(obj, name, value(name, v))
    except Exception as exc:  # noqa: BLE001
        return False, exc
    if name == "atcorenums":
        st.explicit_core = v is not None
    if name == "atnums":
        st.atnums_history.append(v)
    return True, None


def build(hist, observing=False):
    from iodata import IOData

    st = State()
    st.explicit_core = False
    st.ctor_error = None
    st.log = []
    st.atnums_history = []
    kind, kw, _ = hist[0]
    assert kind == "ctor"
    kwargs = {n: value(n, v) for n, v in kw}
    try:
        st.obj = IOData(**kwargs)
    except Exception as exc:  # noqa: BLE001
        st.obj = None
        st.ctor_error = exc
        return st
    d = dict(kw)
    st.explicit_core = d.get("atcorenums") is not None
    if "atnums" in d:
        st.atnums_history.append(d["atnums"])
    if observing:
        observe(st.obj)
    for ev in hist[1:]:
        ok, exc = apply(st, ev)
        st.log.append((ok, type(exc).__name__ if exc else None))
        if observing:
            observe(st.obj)
    return st


def _a(x):
    if x is None:
        return None
    if isinstance(x, np.ndarray):
        return (str(x.dtype), x.shape, x.tobytes())
    if isinstance(x, (float, np.floating)):
        return float(x)
    if isinstance(x, (int, np.integer)):
        return float(x)
    return repr(x)


def hidden(obj):
    g = object.__getattribute__
    return tuple(
        _a(g(obj, n))
        for n in ("_atcorenums", "_charge", "_nelec", "_spinpol", "atnums", "atcoords", "atmasses", "atgradient", "atfrozen")
    ) + (g(obj, "mo") is not None, g(obj, "mo") is not None and g(obj, "mo").occs is not None)


def canon(st: State):
    if st.obj is None:
        return ("ctor-error", type(st.ctor_error).__name__)
    return (hidden(st.obj), st.explicit_core)


def observe(obj, order=0):
    names = ["atcorenums", "charge", "nelec", "spinpol", "natom", "atnums", "atcoords", "atmasses", "atgradient", "atfrozen"]
    if order == 1:
        names = names[::-1]
    elif order == 2:
        names = ["nelec", "spinpol", "natom", "charge", "atcorenums", "atnums", "atcoords", "atmasses", "atgradient", "atfrozen"]
    out = {}
    for n in names:
        try:
            out[n] = _a(getattr(obj, n))
        except Exception as exc:  # noqa: BLE001 - reading a property must never fail; reported by check_state
            out[n] = f"RAISES {type(exc).__name__}"
    out["mo"] = obj.mo is not None
    out["mo_occs"] = obj.mo is not None and obj.mo.occs is not None
    return out


def close(a, b):
    if a is None or b is None:
        return a is b
    return abs(a - b) <= 1e-9


def obs_equal(o1, o2):
    for k in o1:
        a, b = o1[k], o2[k]
        if isinstance(a, float) and isinstance(b, float):
            if not close(a, b):
                return k
        elif a != b:
            return k
    return None


def hist_str(hist):
    parts = []
    for kind, name, v in hist:
        if kind == "ctor":
            parts.append("IOData(" + ", ".join(f"{n}={v!r}" for n, v in name) + ")")
        elif kind == "read":
            parts.append(f"read {name}")
        else:
            parts.append(f"{name}={v!r}")
    return "; ".join(parts)


def stale_pattern(hist):
    """True iff some event re-assigns/clears atnums after atnums was already set (default cores may be materialised)."""
    have = False
    for kind, name, v in hist:
        if kind == "ctor":
            have = any(n == "atnums" for n, _ in name)
        elif kind == "set" and name == "atnums":
            if have:
                return True
            have = v is not None
    return False


def read_mechanism(hist):
    """Which reads change hidden state while replaying ``hist`` with all reads interleaved, and how.

    Returns "lazy-default-cores" iff every hidden-state change caused by a read is exactly the documented
    lazy materialisation (``_atcorenums`` None -> atnums as float, with the accompanying switch from a
    stored ``_charge`` to a stored ``_nelec``); "none" if no read changes hidden state; otherwise a
    description of the first other change (which would be a different defect).
    """
    st = build(hist[:1])
    if st.obj is None:
        return "none"
    g = object.__getattribute__
    found = "none"

    def reads():
        nonlocal found
        for prop in ["nelec", "spinpol", "natom", "atnums", "atcoords", "atmasses", "atgradient", "atfrozen", "atcorenums", "charge"]:
            h0 = hidden(st.obj)
            c0, n0, a0 = g(st.obj, "_charge"), g(st.obj, "_nelec"), g(st.obj, "_atcorenums")
            getattr(st.obj, prop)
            h1 = hidden(st.obj)
            if h0 == h1:
                continue
            atn = g(st.obj, "atnums")
            a1, c1, n1 = g(st.obj, "_atcorenums"), g(st.obj, "_charge"), g(st.obj, "_nelec")
            lazy = (
                prop in ("atcorenums", "charge")
                and a0 is None and atn is not None and a1 is not None
                and a1.dtype == float and a1.shape == atn.shape and (a1 == atn).all()
                and h0[4:] == h1[4:] and h0[3] == h1[3]
                and (
                    (c0 is None and c1 is None and n0 == n1)
                    or (c0 is not None and c1 is None and (n1 == n0 if n0 is not None else close(n1, a1.sum() - c0)))
                )
            )
            if lazy:
                if found == "none":
                    found = "lazy-default-cores"
            else:
                found = f"read-of-{prop}-changes-hidden-state"
                return

    reads()
    for ev in hist[1:]:
        apply(st, ev)
        reads()
        if found.startswith("read-of"):
            break
    return found


class Oracle:
    def __init__(self, ctx):
        self.ctx = ctx
        self.obsvec = set()

    def mech(self, hist):
        m = read_mechanism(hist)
        return m if m == "lazy-default-cores" else f"{m}:{hist_str(hist)}"

    @staticmethod
    def is_stale(st, got):
        """The observed default core charges equal an atnums value that was assigned earlier and replaced since."""
        if got is None:
            return False
        return any(v is not None and len(v) == len(got) and (np.array(v, dtype=float) == got).all() for v in st.atnums_history[:-1])

    def lens(self, o):
        res = {}
        for n in PER_ATOM:
            x = o.get(n)
            if x is not None and not isinstance(x, str):
                res[n] = x[1][0]
        return res

    def check_state(self, hist, st: State):
        ctx = self.ctx
        if st.obj is None:
            return
        # fresh replays so observation does not disturb the BFS object
        o_blind = observe(build(hist).obj)
        self.obsvec.add(repr(sorted(o_blind.items())))
        # I6 idempotent reads, any order
        st2 = build(hist)
        o_a = observe(st2.obj, 0)
        o_b = observe(st2.obj, 1)
        o_c = observe(build(hist).obj, 2)
        for other, lab in ((o_b, "second-read-reversed"), (o_c, "fresh-object-other-read-order")):
            k = obs_equal(o_a, other)
            ctx.outcome("I6-idempotent", "same" if k is None else "differs")
            if k is not None:
                ctx.violation(
                    "I6-idempotent",
                    f"I6-idempotent:{k}:" + self.mech(hist),
                    {"history": hist_str(hist), "hist": hist},
                    f"reading {k} gives {o_a[k]!r} then {other[k]!r} ({lab}) after [{hist_str(hist)}]",
                )
        # I6 differential: reads interleaved after every step must not change what is observed at the end
        o_obs = observe(build(hist, observing=True).obj)
        k = obs_equal(o_blind, o_obs)
        ctx.outcome("I6-differential", "same" if k is None else "differs")
        if k is not None:
            ctx.violation(
                "I6-differential",
                f"I6-differential:{k}:" + self.mech(hist),
                {"history": hist_str(hist), "hist": hist},
                f"[{hist_str(hist)}]: {k} = {o_blind[k]!r} without intermediate reads, {o_obs[k]!r} when every property is read after each step",
            )
        o = o_blind
        raising = [k for k, v in o.items() if isinstance(v, str) and v.startswith("RAISES")]
        if raising:
            ctx.violation("read-raises", f"READ:reading-{raising[0]}-{o[raising[0]].replace(' ', '-')}", {"history": hist_str(hist), "hist": hist},
                          f"[{hist_str(hist)}]: reading {raising[0]} raises {o[raising[0]][7:]} (the per-atom arrays are {self.lens({k: v for k, v in o.items() if not isinstance(v, str)})})")
            return
        # I1
        if o["atcorenums"] is not None and o["nelec"] is not None:
            cores = np.frombuffer(o["atcorenums"][2], dtype=float)
            ok = o["charge"] is not None and close(o["charge"], cores.sum() - o["nelec"])
            ctx.outcome("I1", "holds" if ok else "broken")
            if not ok:
                ctx.violation("I1", "I1:charge!=cores-nelec", {"history": hist_str(hist), "hist": hist},
                              f"[{hist_str(hist)}]: charge={o['charge']} cores={cores.tolist()} nelec={o['nelec']}")
        # I3 default cores follow atnums
        if not st.explicit_core:
            want = None
            if o["atnums"] is not None:
                want = np.frombuffer(o["atnums"][2], dtype=np.dtype(o["atnums"][0])).astype(float)
            got = None if o["atcorenums"] is None else np.frombuffer(o["atcorenums"][2], dtype=float)
            ok = (want is None and got is None) or (want is not None and got is not None and want.shape == got.shape and (want == got).all())
            ctx.outcome("I3", "default-follows-atnums" if ok else "broken")
            if not ok:
                ctx.violation("I3", "I3:default-cores!=atnums:" + ("stale-default-cores" if stale_pattern(hist) and self.is_stale(st, got) else hist_str(hist)),
                              {"history": hist_str(hist), "hist": hist},
                              f"[{hist_str(hist)}]: core charges never set explicitly, atnums={None if want is None else want.tolist()} but atcorenums={None if got is None else got.tolist()}")
        # I4
        if o["mo"]:
            mo = _mo("MO" if o["mo_occs"] else "MO-no-occs")
            if o["mo_occs"]:
                ok = close(o["nelec"], float(mo.nelec)) and close(o["spinpol"], float(mo.spinpol))
            else:
                ok = o["nelec"] is None and o["spinpol"] is None  # as unknown as the orbitals' own values
            ctx.outcome("I4", "equal-to-orbitals" if ok else "broken")
            if not ok:
                ctx.violation("I4", "I4:nelec/spinpol!=orbitals", {"history": hist_str(hist), "hist": hist},
                              f"[{hist_str(hist)}]: nelec={o['nelec']} spinpol={o['spinpol']} orbitals: {mo.nelec}, {mo.spinpol}")
        # I5 all per-atom arrays agree
        ls = self.lens(o)
        ok = len(set(ls.values())) <= 1 and (o["natom"] is None) == (not ls) and (not ls or o["natom"] == float(next(iter(ls.values()))))
        ctx.outcome("I5-agree", "agree" if ok else "broken")
        if not ok:
            ctx.violation("I5-agree", "I5:per-atom-arrays-disagree:" + ("stale-default-cores" if stale_pattern(hist) and not st.explicit_core and o["atcorenums"] is not None and self.is_stale(st, np.frombuffer(o["atcorenums"][2], dtype=float)) else hist_str(hist)),
                          {"history": hist_str(hist), "hist": hist},
                          f"[{hist_str(hist)}]: lengths {ls}, natom={o['natom']}")

    def check_ctor(self, hist, st: State):
        """Constructor outcome: disagreeing arrays must be rejected with TypeError; mo+nelec/spinpol too."""
        ctx = self.ctx
        kw = dict(hist[0][1])
        lens = {n: length(n, kw[n]) for n in kw if n in PER_ATOM and kw[n] is not None}
        must_fail = len(set(lens.values())) > 1 or ("mo" in kw and ("nelec" in kw or "spinpol" in kw))
        # charge with mo and known cores goes through the nelec setter -> TypeError as well (allowed, not demanded)
        if st.obj is None:
            ok = isinstance(st.ctor_error, TypeError)
            ctx.outcome("ctor", "TypeError" if ok else type(st.ctor_error).__name__)
            if not ok:
                ctx.violation("I5-ctor", f"I5:ctor-raises-{type(st.ctor_error).__name__}:{hist_str(hist)}", {"history": hist_str(hist), "hist": hist},
                              f"{hist_str(hist)} raised {st.ctor_error!r}, expected TypeError")
        else:
            ctx.outcome("ctor", "constructed")
            if must_fail:
                ctx.violation("I5-ctor", f"I5:ctor-accepts-inconsistent:{hist_str(hist)}", {"history": hist_str(hist), "hist": hist},
                              f"{hist_str(hist)} was accepted")

    def on_transition(self, hist, ev, before: State, after: State):
        ctx = self.ctx
        kind, name, v = ev
        if before.obj is None:
            return
        o0 = observe(before.obj)  # `before` is a fresh build, observing it is harmless
        ok, exc = after.log[-1]
        full = hist + (ev,)
        if kind == "read":
            if not ok:
                ctx.violation("read-raises", f"READ:reading-{name}-RAISES-{exc}", {"history": hist_str(full), "hist": full}, f"[{hist_str(full)}]: reading {name} raises {exc}")
            return
        o1 = observe(build(full).obj)
        # would the assignment break per-atom agreement?
        would_break = False
        if name in PER_ATOM and v is not None:
            n_new = length(name, v)
            ls = self.lens(o0)
            others = {n: l for n, l in ls.items() if n != name}
            if name == "atnums" and not before.explicit_core:
                others.pop("atcorenums", None)  # default cores follow atnums
            would_break = any(l != n_new for l in others.values())
        mo_blocked = o0["mo"] and name in ("nelec", "spinpol")
        if not ok:
            if exc != "TypeError":
                ctx.violation("exc-type", f"EXC:{name}-assignment-raises-{exc}", {"history": hist_str(full), "hist": full},
                              f"[{hist_str(full)}] raised {exc}, the only documented failure is TypeError")
            if would_break:
                ctx.outcome("I5-reject", "rejected")
                k = obs_equal(o0, o1)
                if k is not None:
                    ctx.violation("I5-unchanged", f"I5:failed-{name}-assignment-changes-{k}", {"history": hist_str(full), "hist": full},
                                  f"[{hist_str(full)}]: assignment raised TypeError but {k} changed from {o0[k]!r} to {o1[k]!r}")
                else:
                    ctx.outcome("I5-unchanged", "unchanged")
            elif mo_blocked:
                ctx.outcome("I4-reject", "rejected")
            else:
                ctx.outcome("other-reject", f"{name}:{exc}")
            return
        # successful assignment
        if would_break:
            ctx.outcome("I5-reject", "ACCEPTED")
            ctx.violation("I5-reject", f"I5:inconsistent-{name}-accepted:" + ("stale-default-cores" if stale_pattern(full) else ""), {"history": hist_str(full), "hist": full},
                          f"[{hist_str(full)}]: {name} with {length(name, v)} atoms accepted although lengths were {self.lens(o0)}")
        if mo_blocked:
            ctx.violation("I4-reject", f"I4:{name}-assignable-with-orbitals", {"history": hist_str(full), "hist": full},
                          f"[{hist_str(full)}]: assignment succeeded although orbitals are present")
        if name in ("charge", "nelec", "spinpol"):
            got = o1[name]
            if o1["mo"] and name in ("nelec", "spinpol"):
                return
            if v is None:
                # the statement speaks of values read back "to rounding"; clearing is judged by I1/I6 only - except where the
                # cleared value is pinned by other clauses: with orbitals and core charges present the charge is their
                # difference, so an assignment of None cannot both succeed and read back as assigned
                if name == "charge" and o1["mo"] and o1["atcorenums"] is not None and got is not None:
                    ctx.violation("I2-readback", "I2:charge-cleared-with-orbitals-succeeds-but-reads-a-number", {"history": hist_str(full), "hist": full},
                                  f"[{hist_str(full)}]: charge = None was accepted although orbitals and core charges fix the charge; it reads {got!r}")
                return
            rb = close(got, float(v))
            ctx.outcome("I2-readback", "reads-back" if rb else "differs")
            if not rb:
                ctx.violation("I2-readback", f"I2:{name}-does-not-read-back:{'None' if v is None else 'value'}", {"history": hist_str(full), "hist": full},
                              f"[{hist_str(full)}]: assigned {v!r}, reads {got!r}")
            if o0["atcorenums"] != o1["atcorenums"]:
                ctx.violation("I2-cores", f"I2:{name}-assignment-changes-cores", {"history": hist_str(full), "hist": full},
                              f"[{hist_str(full)}]: core charges changed by assigning {name}")
            else:
                ctx.outcome("I2-cores", "unchanged")


def run(ctx):
    depth = int(__import__('os').environ.get('C11_DEPTH', 6 if ctx.thorough else 3))
    oracle = Oracle(ctx)
    ops = all_ops(ctx.thorough)
    inits = [(ev,) for ev in ctor_events(ctx.thorough)]

    def on_state(hist, st):
        if len(hist) == 1:
            oracle.check_ctor(hist, st)
        oracle.check_state(hist, st)
        ctx.nontrivial(repr(canon(st)))

    def ops_of(st):
        return ops if st.obj is not None else ()

    g = esb.bfs(inits, ops_of, build, canon, oracle.on_transition, depth, on_state=on_state)
    ctx.evaluations = g.transitions + len(inits)
    # replay check: every witness history replayed twice gives identical canonical states (determinism)
    n = 0
    for k, h in list(g.witness.items())[:: max(1, len(g.witness) // 500)]:
        assert canon(build(h)) == k == canon(build(h)), "non-deterministic replay"
        n += 1
    ctx.cov.update(
        states=g.states,
        transitions=g.transitions,
        traces_validated_against_impl=g.transitions + len(inits),
        depth_completed=depth,
        fixpoint_reached=g.max_depth < depth,
        max_depth_with_new_states=g.max_depth,
        states_per_depth=g.depth_histogram,
        distinct_observation_vectors=len(oracle.obsvec),
        operations=len(ops),
        initial_constructor_calls=len(inits),
        replayed_twice_identical=n,
    )
    ctx.exhaustive = True
    ctx.rule = (
        f"breadth-first search over all histories of <= {depth} operations after each of {len(inits)} constructor calls; "
        f"alphabet = {len(ops)} operations (assign/clear 10 attributes from small menus, read 5 properties); every transition "
        "re-executes the real setter on a fresh IOData; states are hashed on all hidden fields (_atcorenums,_charge,_nelec,_spinpol), "
        "all per-atom arrays, presence of orbitals and whether core charges were set explicitly; a state is non-trivial/distinct if its hash is new"
    )
    ctx.assumptions += [
        "value menus: atnums {None,(1,1),(8,1),(8,1,1)}, atcorenums {None,(1,1),(6,1),(0,1,1)}, charge {None,0,1,-0.5}, nelec {None,2,9,1.5}, spinpol {None,0,1}, one restricted MO object, per-atom arrays of 2 or 3 rows",
        "no model: every explored trace is an execution of the real class, so traces_validated_against_impl equals the number of transitions",
    ]
    for h in [w for w in g.witness.values() if len(w) == depth + 1][:3]:
        ctx.sample(hist_str(h))


def replay(ctx, payload):
    hist = payload["case"]["hist"]

    def tup(x):
        return tuple(tup(i) for i in x) if isinstance(x, list) else x

    hist = tup(hist)
    oracle = Oracle(ctx)
    st = build(hist)
    if len(hist) == 1:
        oracle.check_ctor(hist, st)
    else:
        oracle.on_transition(hist[:-1], hist[-1], build(hist[:-1]), st)
    if st.obj is not None:
        oracle.check_state(hist, st)
