"""C20 - numerical helpers (derive_naturals/check_dm, volume, set_four_index_element, strtobool).

Exhaustive over small finite spaces: (n x spectrum pattern x overlap kind x eps x occ_max), (vector
menu x orders x sign patterns), all index quadruples n <= 4 / 6, all case variants of the
vocabulary + all single-character edits + every word wrapped in every pair of decoration characters.
"""

from __future__ import annotations

import itertools

import numpy as np

LEVEL = "exploration"


# ---------------------------------------------------------------------------------------------
# derive_naturals / check_dm

def int_matrix(n, seed):
    """Deterministic well-mixed integer matrix (no random module)."""
    a = np.empty((n, n))
    x = 12345 + 977 * seed + n
    for i in range(n):
        for j in range(n):
            x = (x * 1103515245 + 12345) % 2147483648
            a[i, j] = (x >> 16) % 19 - 9
    return a


def orthogonal(n, seed):
    q, r = np.linalg.qr(int_matrix(n, seed) + 20 * np.eye(n))
    return q * np.sign(np.diag(r))


def overlap_matrix(kind, n, seed):
    if kind == "identity":
        return np.eye(n), 1.0
    q = orthogonal(n, seed + 7)
    if kind == "well":
        ev = np.linspace(0.5, 2.0, n)
    else:  # ill-conditioned SPD, cond 1e6
        ev = np.logspace(-6, 0, n) if n > 1 else np.array([1e-6])
    s = (q * ev) @ q.T
    return (s + s.T) / 2, float(ev.max() / ev.min())


def spectra(n, eps, occ_max):
    d = eps / 1000
    pats = {
        "distinct": np.linspace(0.0, occ_max, n + 2)[1:-1],
        "pairs": np.repeat(np.linspace(0.1, 0.9, (n + 1) // 2) * occ_max, 2)[:n],
        "zeros": np.array([occ_max * (i % 2) for i in range(n)], dtype=float),
        "all-equal": np.full(n, 0.5 * occ_max),
        "at-(-2eps)": np.array([-2 * eps] + [0.3 * occ_max] * (n - 1)),
        "at-(-eps-d)": np.array([-eps - d] + [0.3 * occ_max] * (n - 1)),
        "at-(-eps+d)": np.array([-eps + d] + [0.3 * occ_max] * (n - 1)),
        "at-(max+eps-d)": np.array([occ_max + eps - d] + [0.3 * occ_max] * (n - 1)),
        "at-(max+eps+d)": np.array([occ_max + eps + d] + [0.3 * occ_max] * (n - 1)),
        "at-(max+2eps)": np.array([0.2 * occ_max] * (n - 1) + [occ_max + 2 * eps]),
        "both-ends-inside": np.array(([-eps + d] + [0.5 * occ_max] * (n - 2) + [occ_max + eps - d])[:n]) if n > 1 else np.array([0.0]),
    }
    return pats


def naturals_worker(chunk, seed, tier):
    from iodata.utils import check_dm, derive_naturals
    from mc.core import Part

    part = Part(seed, tier)
    for n, okind, eps, occ_max in chunk:
        s, cond = overlap_matrix(okind, n, seed)
        # C with C^T S C = I : C = S^{-1/2} Q
        w, v = np.linalg.eigh(s)
        c_true = (v / np.sqrt(w)) @ v.T @ orthogonal(n, seed + 3)
        for pname, occ in spectra(n, eps, occ_max).items():
            part.count()
            dm = (c_true * occ) @ c_true.T
            dm = (dm + dm.T) / 2
            case = {"n": n, "overlap": okind, "spectrum": pname, "eps": eps, "occ_max": occ_max}
            part.nontrivial(repr(sorted(case.items())))
            if n == 3 and okind == "well":
                part.sample(case)
            tol = 1e-9 * max(1.0, cond)
            # the helpers must not modify their arguments, whatever the memory layout of the arrays handed in
            for layout in ("C", "F"):
                dm_in = np.asfortranarray(dm.copy()) if layout == "F" else dm.copy()
                s_in = np.asfortranarray(s.copy()) if layout == "F" else s.copy()
                try:
                    derive_naturals(dm_in, s_in)
                    check_dm(dm_in, s_in, eps=1e9, occ_max=1.0)
                except Exception:  # noqa: BLE001 (judged below on the C-ordered call)
                    pass
                same = np.array_equal(dm_in, dm) and np.array_equal(s_in, s)
                part.outcome("arguments-unchanged", f"{layout}-order:unchanged" if same else f"{layout}-order:MODIFIED")
                if not same:
                    part.violation("naturals", f"naturals:argument-modified:{layout}-order", {**case, "layout": layout}, "derive_naturals / check_dm changed the density or overlap matrix passed in")
            try:
                coeffs, occs = derive_naturals(dm, s)
            except Exception as exc:  # noqa: BLE001
                part.violation("naturals", f"naturals:raises-{type(exc).__name__}", case, f"derive_naturals raised {exc!r}")
                continue
            scale = max(1.0, float(np.abs(dm).max()))
            ok_shape = coeffs.shape == (n, n) and occs.shape == (n,)
            if not ok_shape:
                part.violation("naturals", "naturals:shape", case, f"shapes {coeffs.shape} {occs.shape}")
                continue
            e1 = float(np.abs(coeffs.T @ s @ coeffs - np.eye(n)).max())
            # occupations are the generalized eigenvalues: (D S) c = occ c  (checked without scipy)
            e2 = float(np.abs(dm @ s @ coeffs - coeffs * occs).max())
            e3 = float(np.abs((coeffs * occs) @ coeffs.T - dm).max())
            e4 = float(np.abs(np.sort(occs) - np.sort(occ)).max())
            for lab, e, t in (("orthonormal", e1, tol), ("eigen-equation", e2, tol * scale), ("reconstruct", e3, tol * scale), ("spectrum", e4, tol)):
                good = e <= t
                part.outcome("naturals-" + lab, "ok" if good else "broken")
                if not good:
                    part.violation("naturals", f"naturals:{lab}", case, f"{lab}: error {e:.3e} > {t:.1e}")
            # check_dm accepts exactly the in-range spectra; only judge when the margin exceeds the numerical error
            margin = min(abs(occ.min() + eps), abs(occ.max() - occ_max - eps))
            if margin < 100 * 1e-15 * cond * max(1.0, np.abs(occ).max()) * n:
                part.outcome("check_dm", "too-close-to-call")
                continue
            should = occ.min() >= -eps and occ.max() <= occ_max + eps
            try:
                check_dm(dm, s, eps=eps, occ_max=occ_max)
                accepted = True
                exc = None
            except ValueError as e:
                accepted = False
                exc = e
            except Exception as e:  # noqa: BLE001
                part.violation("check_dm", f"check_dm:raises-{type(e).__name__}", case, repr(e))
                continue
            part.outcome("check_dm", ("accept" if accepted else "reject") + ("-correct" if accepted == should else "-WRONG"))
            if accepted != should:
                part.violation("check_dm", "check_dm:" + ("accepts-out-of-range" if accepted else "rejects-in-range"), case,
                               f"occupations in [{occ.min()!r}, {occ.max()!r}], eps={eps}, occ_max={occ_max}: accepted={accepted}")
    return part.result()


# ---------------------------------------------------------------------------------------------
# volume

VECS = [
    (1.0, 0.0, 0.0),
    (0.0, 2.0, 0.0),
    (0.0, 0.0, 3.0),
    (1.5, -0.5, 0.25),
    (-0.75, 2.0, 1.0),
    (0.5, 0.5, -4.0),
]


def volume_cases(ctx):
    from iodata.utils import volume

    def ref(rows):
        a = np.array(rows, dtype=float)
        # Gram determinant: length / area / volume of the spanned parallelotope, independent of order & handedness
        return float(np.sqrt(max(0.0, np.linalg.det(a @ a.T))))

    for nvec in (1, 2, 3):
        for base in itertools.combinations(range(len(VECS)), nvec):
            for perm in itertools.permutations(base):
                for signs in itertools.product((1, -1), repeat=nvec):
                    rows = [tuple(s * x for x in VECS[i]) for i, s in zip(perm, signs)]
                    forms = [("2d", np.array(rows, dtype=float))]
                    if nvec == 1:
                        forms.append(("1d", np.array(rows[0], dtype=float)))
                    for form, arr in forms:
                        ctx.count()
                        case = {"rows": rows, "form": form}
                        ctx.nontrivial(repr(case))
                        if nvec == 3 and len(ctx.samples) < 2:
                            ctx.sample(case)
                        want = ref(rows)
                        try:
                            got = float(volume(arr))
                        except Exception as exc:  # noqa: BLE001
                            ctx.violation("volume", f"volume:raises-{type(exc).__name__}", case, repr(exc))
                            continue
                        ok = abs(got - want) <= 1e-10 * max(1.0, want)
                        left = nvec == 3 and np.linalg.det(np.array(rows)) < 0
                        ctx.outcome("volume", f"{nvec}vec-" + ("lefthanded" if left else "other") + ("-ok" if ok else "-WRONG"))
                        if not ok:
                            ctx.violation(
                                "volume",
                                "volume:negative-for-left-handed-cell" if left and abs(got + want) <= 1e-10 * max(1.0, want) else f"volume:wrong-{nvec}vec",
                                case,
                                f"volume({rows}) = {got!r}, expected {want!r}",
                            )
    # shape outside {1,2,3} vectors is documented to raise ValueError
    for rows in (np.zeros((4, 3)), np.zeros((0, 3))):
        ctx.count()
        try:
            volume(rows)
            ctx.violation("volume", "volume:accepts-bad-shape", {"shape": rows.shape}, "no ValueError")
        except ValueError:
            ctx.outcome("volume", "bad-shape-rejected")
        except Exception as exc:  # noqa: BLE001
            ctx.violation("volume", f"volume:bad-shape-raises-{type(exc).__name__}", {"shape": rows.shape}, repr(exc))


# ---------------------------------------------------------------------------------------------
# set_four_index_element

def orbit(i, j, k, l):
    """8-fold symmetry of real two-electron integrals, derived from chemists' notation.

    <ij|kl> (physicists') = (ik|jl) (chemists'); chemists' symmetries: a<->b, c<->d, (ab)<->(cd).
    """
    out = set()
    a, b, c, d = i, k, j, l
    for (p, q) in ((a, b), (b, a)):
        for (r, s) in ((c, d), (d, c)):
            for (w, x, y, z) in ((p, q, r, s), (r, s, p, q)):
                # chemists' (wx|yz) = physicists' <wy|xz>
                out.add((w, y, x, z))
    return out


def four_index_worker(chunk, seed, tier):
    from iodata.utils import set_four_index_element
    from mc.core import Part

    part = Part(seed, tier)
    for n, quads in chunk:
        for q in quads:
            part.count()
            sentinel = -7.25
            arr = np.full((n, n, n, n), sentinel)
            val = 3.5 + q[0] + 0.1 * q[1] + 0.01 * q[2] + 0.001 * q[3]
            set_four_index_element(arr, *q, val)
            want = orbit(*q)
            got = {tuple(int(t) for t in idx) for idx in np.argwhere(arr != sentinel)}
            vals_ok = all(arr[idx] == val for idx in got)
            ok = got == want and vals_ok
            # an exactly zero value is a value like any other: it must overwrite what the eight positions held
            for zero in (0.0, -0.0):
                arr0 = np.full((n, n, n, n), sentinel)
                set_four_index_element(arr0, *q, zero)
                got0 = {tuple(int(t) for t in idx) for idx in np.argwhere(arr0 != sentinel)}
                if got0 != want or any(arr0[idx] != 0.0 for idx in got0):
                    ok = False
                    got = got0
            part.nontrivial(repr((n, tuple(sorted(want)))))
            part.outcome("four-index", f"orbit-size-{len(want)}" + ("" if ok else "-WRONG"))
            if n == 3 and q == (0, 1, 2, 1):
                part.sample({"n": n, "quadruple": q, "orbit": sorted(want)})
            if not ok:
                part.violation("four-index", "four-index:" + ("missing" if want - got else "extra" if got - want else "value"),
                               {"n": n, "quadruple": q}, f"written {sorted(got)}, expected {sorted(want)}")
    return part.result()


# ---------------------------------------------------------------------------------------------
# strtobool

VOCAB = {"y": True, "yes": True, "t": True, "true": True, "on": True, "1": True,
         "n": False, "no": False, "f": False, "false": False, "off": False, "0": False}


def strtobool_cases(ctx):
    from iodata.utils import strtobool

    def expect(s):
        return VOCAB.get(s.lower())

    tried = set()

    def probe(s, origin):
        if s in tried:
            return
        tried.add(s)
        ctx.count()
        ctx.nontrivial("stb:" + s)
        want = expect(s)
        outcomes = []
        for _ in range(3):  # the answer for a string does not depend on having been asked before
            try:
                outcomes.append(("value", strtobool(s)))
            except ValueError:
                outcomes.append(("ValueError", None))
            except Exception as e:  # noqa: BLE001
                ctx.violation("strtobool", f"strtobool:raises-{type(e).__name__}", {"string": s, "origin": origin}, repr(e))
                return
        if len(set(outcomes)) != 1:
            ctx.violation("strtobool", "strtobool:answer-changes-when-asked-again", {"string": s, "origin": origin}, f"strtobool({s!r}) three times: {outcomes}")
        got, exc = (outcomes[0][1], None) if outcomes[0][0] == "value" else (None, ValueError())
        if want is None:
            ok = exc is not None
            ctx.outcome("strtobool", "rejected" if ok else "ACCEPTED-UNDOCUMENTED")
            if not ok:
                ctx.violation("strtobool", "strtobool:accepts-undocumented-word", {"string": s, "origin": origin}, f"strtobool({s!r}) = {got!r}")
        else:
            ok = exc is None and got is want
            ctx.outcome("strtobool", f"{want}" if ok else "WRONG")
            if not ok:
                ctx.violation("strtobool", "strtobool:documented-word-wrong", {"string": s, "origin": origin}, f"strtobool({s!r}) -> {got!r} / {exc!r}, expected {want}")

    alphabet = "aey1 0n.,-_\t'\"!"
    for word in VOCAB:
        for mask in range(1 << len(word)):
            probe("".join(c.upper() if mask >> i & 1 else c for i, c in enumerate(word)), "case-variant")
        for i in range(len(word) + 1):
            for ch in alphabet:
                probe(word[:i] + ch + word[i:], "insert")
        for i in range(len(word)):
            probe(word[:i] + word[i + 1 :], "delete")
            for ch in alphabet:
                probe(word[:i] + ch + word[i + 1 :], "substitute")
    for word in VOCAB:  # the word decorated on both sides (Fortran-style .true., quoted, padded)
        for a in alphabet:
            for b in alphabet:
                probe(a + word + b, "wrapped")
                probe(a + word.upper() + b, "wrapped")
    for s in ("", " ", "2", "-1", "yes ", " no", "tru", "nope", "oui", "none", "null", "10", "00", "01", "t rue"):
        probe(s, "other")
    ctx.sample({"strings_tried": len(tried), "examples": sorted(tried)[:8]})


def run(ctx):
    from mc.pool import pmap

    nmax = 12
    combos = [
        (n, ok, eps, om)
        for n in range(1, nmax + 1)
        for ok in ("identity", "well", "ill")
        for eps, om in ((1e-4, 1.0), (1e-4, 2.0), (1e-2, 1.0)) + (((1e-6, 2.0),) if ctx.thorough else ())
    ]
    pmap(ctx, naturals_worker, combos, chunk=4)
    volume_cases(ctx)
    nq = 6 if ctx.thorough else 4
    jobs = []
    for n in range(1, nq + 1):
        quads = list(itertools.product(range(n), repeat=4))
        for i in range(0, len(quads), 128):
            jobs.append((n, quads[i : i + 128]))
    pmap(ctx, four_index_worker, jobs, chunk=1)
    strtobool_cases(ctx)
    ctx.exhaustive = True
    ctx.rule = (
        f"full product: derive_naturals/check_dm for n=1..{nmax} x 11 spectrum patterns (incl. values at -eps+-d, occ_max+eps+-d, d=eps/1000) x 3 overlap kinds x "
        f"{3 + ctx.thorough} (eps, occ_max) settings; volume for every 1/2/3-subset of 6 vectors x all orders x all sign patterns; set_four_index_element (a distinct value, 0.0 and -0.0 onto a sentinel-filled array) for all "
        f"index quadruples n<=" + str(nq) + "; strtobool for every letter-case variant of the 12 documented words and every single-character insert/delete/substitute over the 15 characters a e y 1 space 0 n . , - _ tab ' \" !, and every word (lower / upper case) wrapped in every ordered pair of those characters. "
        "A case is distinct by its parameters (four-index: by symmetry orbit)."
    )
    ctx.assumptions += [
        "reference occupations are the spectrum the density matrix was built from; the eigen-equation D S c = occ c is checked by matrix products only (no scipy)",
        "check_dm is not judged when the spectrum is closer to the boundary than 100*n*cond*1e-15 (numerical noise)",
        "tolerance 1e-9*cond(S) on orthonormality/eigen-equation/reconstruction",
    ]


def replay(ctx, payload):
    case = payload["case"]
    if "n" in case and "spectrum" in case:
        from mc.core import Part

        res = naturals_worker([(case["n"], case["overlap"], case["eps"], case["occ_max"])], payload.get("seed", 0), "quick")
        for v in res["violations"]:
            if v["case"].get("spectrum") == case["spectrum"]:
                ctx.violation(v["clause"], v["sig"], v["case"], v["detail"])
    elif "rows" in case or "shape" in case:
        volume_cases(ctx)
        ctx.violations = [v for v in ctx.violations if v.case == case or "rows" not in case]
    elif "quadruple" in case:
        res = four_index_worker([(case["n"], [tuple(case["quadruple"])])], 0, "quick")
        for v in res["violations"]:
            ctx.violation(v["clause"], v["sig"], v["case"], v["detail"])
    else:
        strtobool_cases(ctx)
        ctx.violations = [v for v in ctx.violations if v.case.get("string") == case.get("string")]
