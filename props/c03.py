"""C03 - loaded values are exactly what the file says under the format's layout (independent writers + DBE; metamorphic token substitution)."""

from __future__ import annotations

import os
import shutil
import warnings

import numpy as np

from mc import dbe
from props import c03meta
from ref import periodic, units, writers

LEVEL = "exploration"
ANG = units.angstrom


def elements(kind, n, seed):
    if kind == "OHH":
        return [[8, 1, 1][i % 3] for i in range(n)]
    if kind == "two-letter":
        pool = [17, 35, 11, 20, 26, 29, 30, 2, 10, 14]
        return [pool[(i + seed) % len(pool)] for i in range(n)]
    return [1 + (i * 7 + seed) % 86 for i in range(n)]


def coords(kind, n, decimals, unit, seed):
    """Pairwise distinct coordinates (in the file's unit, exactly representable with `decimals`), returned in bohr."""
    i = np.arange(n)
    q = 10.0 ** -decimals
    if kind == "small":
        c = np.stack([0.5 + (i % 17) * 0.211 + (i // 17) * 0.013, 1.25 + ((i * 7 + seed) % 23) * 0.173 + (i // 23) * 0.017, 0.75 + ((i * 3) % 29) * 0.131 + (i // 29) * 0.019], axis=1)
    elif kind == "negative":
        c = -np.stack([0.5 + (i % 17) * 0.211 + (i // 17) * 0.013, 11.25 + ((i * 7 + seed) % 23) * 0.173 + (i // 23) * 0.017, 0.75 + ((i * 3) % 29) * 0.131 + (i // 29) * 0.019], axis=1)
    elif kind == "touching":  # every field filled to its full width with a minus sign: neighbouring fields touch
        base = {3: -100.0, 4: -1000.0, 5: -100.0, 10: -100.0}[decimals]
        c = np.stack([base - (i % 37) * 1.017 - (i // 37) * q, base * 2 - ((i * 7 + seed) % 41) * 1.003 - (i // 41) * q, base * 3 - ((i * 3) % 43) * 2.011 - (i // 43) * q], axis=1)
    elif kind == "wide-positive":
        base = {3: 1000.0, 4: 10000.0, 5: 1000.0}[decimals]
        c = np.stack([base + (i % 37) * 1.017 + (i // 37) * q, base * 2 + ((i * 7 + seed) % 41) * 1.003, base * 3 + ((i * 3) % 43) * 2.011], axis=1)
    else:
        raise KeyError(kind)
    return np.round(c / q) * q * unit


def bond_list(kind, n, types):
    if kind == "none" or n < 2:
        return []
    if kind == "last-atoms":
        return [(n - 2, n - 1, types[0])] + ([(n - 3, n - 1, types[-1])] if n > 2 else [])
    m = {"few": 3, "99": 99, "100": 100, "120": 120, "all-types": len(types)}[kind]
    out = []
    i, j, k = 0, 1, 0
    while len(out) < m and i < n - 1:
        out.append((i, j, types[k % len(types)]))
        k += 1
        j += 1
        if j >= n:
            i += 1
            j = i + 1
    return out


class Fmt:
    name = ""
    space: list = []
    fmt = None

    def make(self, case, seed):
        """-> (filename, text, expected list of (path, value, tol or None), load_kwargs)"""
        raise NotImplementedError


def T(n):
    return ("title", [f"t{n}", "a longer title with 12 numbers 3.5", "x"])


class XYZ(Fmt):
    name = "xyz"
    space = [("natom", [3, 1, 100, 1000]), ("elements", ["OHH", "two-letter", "many"]), ("coords", ["small", "negative", "wide-positive"]), ("labels", ["symbols", "numbers"]), T(0)]

    def make(self, c, seed):
        z = elements(c["elements"], c["natom"], seed)
        r = coords(c["coords"], c["natom"], 4, ANG, seed)
        text = writers.xyz(z, r, c["title"], as_numbers=c["labels"] == "numbers")
        return "m.xyz", text, [("atnums", z, None), ("atcoords", r, 1e-9), ("title", c["title"], None)], {}


class EXTXYZ(Fmt):
    name = "extxyz"
    space = [("natom", [3, 1, 100]), ("elements", ["OHH", "two-letter"]), ("coords", ["small", "negative"]), ("cell", [False, True]), ("energy", [None, -76.5, 1e-3]), ("charge", [None, 1.0, -2.0]),
             ("masses", [False, True]), ("forces", [False, True]), ("species", ["symbols", "Z"]), ("extra_cols", ["none", "int", "logical", "string+real3", "species+Z"]), ("title_extra", ["", 'config_type=bulk pbc="T T F"', "flag"])]

    def make(self, c, seed):
        n = c["natom"]
        z = elements(c["elements"], n, seed)
        r = coords(c["coords"], n, 4, ANG, seed)
        cell = np.array([[5.0, 0, 0], [1.5, 6.0, 0], [-0.5, 0.25, 7.0]]) * ANG if c["cell"] else None
        masses = np.array([periodic_mass(zi) for zi in z]) * units.amu if c["masses"] else None
        forces = np.arange(3.0 * n).reshape(n, 3) * 0.0125 - 0.3 if c["forces"] else None
        extra = {}
        exp_extra = []
        if c["extra_cols"] == "int":
            extra["tags"] = ("I", 1, [7 + i for i in range(n)])
            exp_extra.append(("extra.tags", [7 + i for i in range(n)], None))
        elif c["extra_cols"] == "logical":
            extra["fixed"] = ("L", 1, [i % 2 == 0 for i in range(n)])
            exp_extra.append(("extra.fixed", [i % 2 == 0 for i in range(n)], None))
        elif c["extra_cols"] == "string+real3":
            extra["label"] = ("S", 1, [f"a{i}" for i in range(n)])
            extra["mag"] = ("R", 3, [[0.5 * i, -0.25, 1.0 + i] for i in range(n)])
            exp_extra.append(("extra.label", [f"a{i}" for i in range(n)], None))
            exp_extra.append(("extra.mag", [[0.5 * i, -0.25, 1.0 + i] for i in range(n)], 1e-12))
        elif c["extra_cols"] == "species+Z" and c["species"] == "symbols":
            # the usual ASE layout: species labels next to a Z column; the numbers come from Z, the labels are kept as given
            extra["Z"] = ("I", 1, [int(zi) for zi in z])
            exp_extra.append(("extra.species", [writers.sym(zi) for zi in z], None))
        text = writers.extxyz(z, r, cell, c["energy"], c["charge"], masses, forces, c["title_extra"], c["species"] == "Z", extra)
        exp = [("atnums", z, None), ("atcoords", r, 1e-9)] + exp_extra
        if cell is not None:
            exp.append(("cellvecs", cell, 1e-9))
        if c["energy"] is not None:
            exp.append(("energy", c["energy"], 1e-14))
        if c["charge"] is not None:
            exp.append(("charge", c["charge"], 1e-12))
        if masses is not None:
            exp.append(("atmasses", masses, 1e-4))
        if forces is not None:
            exp.append(("atgradient", -forces, 1e-12))
        if c["title_extra"].startswith("config"):
            exp.append(("extra.config_type", "bulk", None))
        return "m.extxyz", text, exp, {}


def periodic_mass(z):
    return {1: 1.00784, 8: 15.99903, 17: 35.446, 35: 79.901, 11: 22.98976928, 20: 40.078, 26: 55.845, 29: 63.546, 30: 65.38, 2: 4.002602, 10: 20.1797, 14: 28.085}.get(int(z), 2.0 * z)


class PDB(Fmt):
    name = "pdb"
    space = [("natom", [3, 1, 99, 100, 1000, 9999, 10000, 12000]), ("elements", ["OHH", "two-letter"]), ("coords", ["small", "negative", "touching"]), ("bonds", ["last-atoms", "none", "few"]),
             ("names", ["element", "four-char"]), ("residues", ["default", "numbered-9999"]), ("occ_b", ["default", "varied", "touching"]), ("record", ["ATOM", "HETATM"]), T(1), ("end", [True, False])]

    def make(self, c, seed):
        n = c["natom"]
        z = elements(c["elements"], n, seed)
        r = coords(c["coords"], n, 3, ANG, seed)
        bl = bond_list(c["bonds"], n, ["x"])
        names = [f"{'CNOH'[i % 4]}{'ABGD'[(i // 4) % 4]}{i % 10}{(i // 10) % 10}" for i in range(n)] if c["names"] == "four-char" else None
        resnums = [1 + (i * 37) % 9999 if i else 9999 for i in range(n)] if c["residues"] == "numbered-9999" else None
        resnames = [["ALA", "GLY", "HOH"][i % 3] for i in range(n)] if resnums else None
        occ = bf = None
        if c["occ_b"] == "varied":
            occ, bf = [0.25 + (i % 4) * 0.25 for i in range(n)], [10.0 + (i % 89) * 0.37 for i in range(n)]
        elif c["occ_b"] == "touching":
            occ, bf = [100.0 + (i % 7) for i in range(n)], [100.0 + (i % 89) * 1.25 for i in range(n)]
        text = writers.pdb(z, r, c["title"], names, resnames, resnums, None, occ, bf, [(i, j) for i, j, _ in bl], 1, c["record"] == "HETATM", end=c["end"])
        exp = [("atnums", z, None), ("atcoords", r, 1e-9), ("title", c["title"], None)]
        if names:
            exp.append(("atffparams.attypes", names, None))
        if resnums:
            exp += [("atffparams.resnums", resnums, None), ("atffparams.restypes", resnames, None)]
        if occ:
            exp += [("extra.occupancies", occ, 1e-9), ("extra.bfactors", bf, 1e-9)]
        if bl and n < 100000:
            exp.append(("bonds[:, :2]", sorted((min(i, j), max(i, j)) for i, j, _ in bl), "pairs"))
        return "m.pdb", text, exp, {}


class MOL2(Fmt):
    name = "mol2"
    TYPES = ["1", "2", "3", "ar", "am", "du", "nc", "un"]
    CODE = {"1": 1, "2": 2, "3": 3, "ar": 4, "am": 9, "du": 10, "nc": 11, "un": 8}
    space = [("natom", [3, 1, 100, 1000, 10000]), ("elements", ["OHH", "two-letter"]), ("coords", ["small", "negative", "touching"]), ("bonds", ["last-atoms", "none", "few", "all-types", "120"]),
             ("charges", [True, False]), ("attypes", ["element", "sybyl"]), T(2)]

    def make(self, c, seed):
        n = c["natom"]
        z = elements(c["elements"], n, seed)
        r = coords(c["coords"], n, 4, ANG, seed)
        bl = bond_list(c["bonds"], n, self.TYPES)
        q = [round(-0.9 + 1.8 * ((i * 7) % 101) / 101, 4) for i in range(n)] if c["charges"] else None
        at = [["C.3", "O.2", "H", "N.am", "C.ar"][i % 5] for i in range(n)] if c["attypes"] == "sybyl" else None
        names = [f"{periodic.NUM2SYM[zi].upper()}{i + 1}" for i, zi in enumerate(z)]
        text = writers.mol2(z, r, c["title"], q, at, bl, names)
        exp = [("atnums", z, None), ("atcoords", r, 1e-9), ("title", c["title"], None)]
        if q:
            exp.append(("atcharges.mol2charges", q, 1e-12))
        if at:
            exp.append(("atffparams.attypes", at, None))
        if bl:
            exp.append(("bonds", [(i, j, self.CODE[t]) for i, j, t in bl], None))
        return "m.mol2", text, exp, {}


class SDF(Fmt):
    name = "sdf"
    space = [("natom", [3, 1, 99, 100, 999]), ("elements", ["OHH", "two-letter"]), ("coords", ["small", "negative", "touching"]), ("bonds", ["last-atoms", "none", "few", "99", "100", "120", "all-types"]), T(3)]

    def make(self, c, seed):
        n = c["natom"]
        z = elements(c["elements"], n, seed)
        r = coords(c["coords"], n, 4, ANG, seed)
        bl = bond_list(c["bonds"], n, [1, 2, 3, 4, 5, 6, 7, 8])
        text = writers.sdf(z, r, c["title"], bl)
        exp = [("atnums", z, None), ("atcoords", r, 1e-9), ("title", c["title"], None), ("bonds", [(i, j, t) for i, j, t in bl], None)]
        return "m.sdf", text, exp, {}


class GRO(Fmt):
    name = "gromacs"
    space = [("natom", [3, 1, 100, 10000, 12000]), ("coords", ["small", "negative", "touching", "wide-positive"]), ("velocities", ["zero", "varied", "touching"]), ("time", [None, 1.5]),
             ("box", ["cubic", "triclinic"]), ("residues", ["default", "numbered"]), T(4)]

    def make(self, c, seed):
        n = c["natom"]
        r = coords(c["coords"], n, 3, units.nanometer, seed)
        vunit = units.nanometer / units.picosecond
        if c["velocities"] == "zero":
            v = np.zeros((n, 3))
        elif c["velocities"] == "varied":
            v = np.round(np.stack([0.1 * (np.arange(n) % 9) - 0.4, 0.0123 * (np.arange(n) % 7), -0.25 + 0.001 * (np.arange(n) % 500)], axis=1), 4) * vunit
        else:
            v = -np.round(np.stack([10.5 + (np.arange(n) % 9), 20.25 + (np.arange(n) % 7), 30.125 + (np.arange(n) % 5)], axis=1), 4) * vunit  # "-10.5000" fills %8.4f
        cell = np.diag([3.0, 4.0, 5.0]) * units.nanometer if c["box"] == "cubic" else np.array([[3.0, 0.0, 0.0], [0.5, 4.0, 0.0], [0.25, -0.75, 5.0]]) * units.nanometer
        resnums = [1 + i // 3 for i in range(n)] if c["residues"] == "numbered" else None
        resnames = [["SOL", "ALA", "NA+"][(i // 3) % 3] for i in range(n)] if resnums else None
        atnames = [["OW", "HW1", "HW2"][i % 3] for i in range(n)]
        t = None if c["time"] is None else c["time"] * units.picosecond
        text = writers.gro(r, c["title"], t, resnums, resnames, atnames, v, cell)
        exp = [("atcoords", r, 1e-6 * float(np.abs(r).max() + 1)), ("extra.velocities", v, 1e-6 * float(np.abs(v).max() + vunit)), ("cellvecs", cell, 1e-6 * units.nanometer * 10), ("title", c["title"], None),
               ("atffparams.attypes", atnames, None)]
        if t is not None:
            exp.append(("extra.time", t, 1e-6 * t))
        if resnums:
            exp += [("atffparams.resnums", [x % 100000 for x in resnums], None), ("atffparams.resnames", resnames, None)]
        return "m.gro", text, exp, {}


class CRD(Fmt):
    name = "charmm"
    space = [("natom", [3, 1, 100, 9999]), ("coords", ["small", "negative", "touching"]), ("weights", ["masses", "zero"]), T(5)]

    def make(self, c, seed):
        n = c["natom"]
        r = coords(c["coords"], n, 5, ANG, seed)
        w = [round(1.008 + (i % 5) * 3.25, 5) for i in range(n)] if c["weights"] == "masses" else [0.0] * n
        resnums = [1 + i // 3 for i in range(n)]
        resnames = [["TIP3", "ALA"][(i // 3) % 2] for i in range(n)]
        attypes = [["OH2", "H1", "H2"][i % 3] for i in range(n)]
        text = writers.crd(r, c["title"], resnums, resnames, attypes, ["WAT"] * n, resnums, w)
        exp = [("atcoords", r, 2e-6 * float(np.abs(r).max() + 1)), ("atmasses", np.array(w) * units.amu, 1e-6), ("atffparams.resnums", resnums, None), ("atffparams.resnames", resnames, None),
               ("atffparams.attypes", attypes, None), ("extra.segid", ["WAT"] * n, None), ("extra.resid", resnums, None)]
        return "m.crd", text, exp, {}


class VASP(Fmt):
    name = "poscar"
    kind = "poscar"
    space = [("natom", [3, 1, 10]), ("elements", ["OHH", "two-letter"]), ("cell", ["cubic", "triclinic", "left-handed"]), ("mode", ["direct", "cartesian", "K", "cart", "kartesisch", "d", "Direct coordinates"]), ("selective", [False, True]),
             ("scale", [1.0, 2.5, 0.5]), T(6)]

    def grid(self, c):
        return None

    def make(self, c, seed):
        n = c["natom"]
        z0 = elements(c["elements"], n, seed)
        z = sorted(z0, key=lambda v: -v)  # VASP files list atoms grouped by species
        cell = {"cubic": np.eye(3) * 5.0, "triclinic": np.array([[4.0, 0.0, 0.0], [1.25, 5.0, 0.0], [-0.5, 0.75, 6.0]]), "left-handed": np.array([[0.0, 5.0, 0.0], [4.0, 0.0, 0.0], [0.0, 0.0, 6.0]])}[c["cell"]] * ANG
        r = coords("small", n, 4, ANG, seed) * 0.25
        g = self.grid(c)
        direct = c["mode"][0].lower() not in "ck"
        text, order = writers.poscar(z, r, cell, c["title"], c["scale"], direct, c["selective"], g, self.kind, None if c["mode"] in ("direct", "cartesian") else c["mode"])
        zo = [z[i] for i in order]
        ro = r[order]
        exp = [("atnums", zo, None), ("atcoords", ro, 1e-9), ("cellvecs", cell, 1e-9), ("title", c["title"], None)]
        if g is not None:
            exp.append(("cube.data", g, ("rel", 1e-9)))
            exp.append(("cube.axes", cell / np.array(g.shape)[:, None], 1e-9))
            exp.append(("cube.origin", np.zeros(3), 1e-12))
        return {"poscar": "POSCAR", "chgcar": "CHGCAR", "locpot": "LOCPOT"}[self.kind], text, exp, {}


class CHGCAR(VASP):
    name = "chgcar"
    kind = "chgcar"
    space = VASP.space + [("shape", [(2, 3, 4), (1, 1, 1), (3, 2, 7), (5, 1, 2)]), ("values", ["positive", "signed"])]

    def grid(self, c):
        m = int(np.prod(c["shape"]))
        v = 0.001 * (np.arange(m) + 1) + 0.25
        if c["values"] == "signed":
            v = v * (-1.0) ** np.arange(m)
        return v.reshape(c["shape"])


class LOCPOT(CHGCAR):
    name = "locpot"
    kind = "locpot"


class CUBE(Fmt):
    name = "cube"
    space = [("natom", [3, 1, 10]), ("elements", ["OHH", "two-letter"]), ("coords", ["small", "negative"]), ("shape", [(2, 3, 7), (1, 1, 1), (3, 2, 6), (2, 2, 13), (4, 1, 5)]),
             ("values", ["positive", "signed", "large-small"]), ("cores", ["default", "ecp"]), ("grid", ["orthogonal", "skewed"]), ("per_line", [6, 4]), T(7)]

    def make(self, c, seed):
        n = c["natom"]
        z = elements(c["elements"], n, seed)
        r = np.round(coords(c["coords"], n, 4, 1.0, seed), 4)
        m = int(np.prod(c["shape"]))
        v = 0.001 * (np.arange(m) + 1) + 0.25
        if c["values"] == "signed":
            v = v * (-1.0) ** np.arange(m)
        elif c["values"] == "large-small":  # two-digit exponents only: E13.5 cannot hold three
            v = np.array([[1.5e30, -2.5e-30, 3.25e-10, -4.5e10, 1e-5, 12345.6][i % 6] for i in range(m)])
        data = v.reshape(c["shape"])
        origin = np.array([0.0, 0.0, 0.0]) if c["grid"] == "orthogonal" else np.array([-1.5, 2.25, -0.125])
        axes = np.diag([0.25, 0.5, 0.125]) if c["grid"] == "orthogonal" else np.array([[0.25, 0.0625, 0.0], [-0.125, 0.5, 0.0], [0.0, 0.03125, -0.375]])
        cores = [max(zi - 2.0, 1.0) for zi in z] if c["cores"] == "ecp" else None
        text = writers.cube(z, r, origin, axes, data, c["title"], cores, c["per_line"])
        exp = [("atnums", z, None), ("atcoords", r, 1e-9), ("title", c["title"], None), ("cube.origin", origin, 1e-12), ("cube.axes", axes, 1e-12), ("cube.data", data, ("rel", 1e-5)),
               ("atcorenums", cores if cores else [float(zi) for zi in z], 1e-9), ("cellvecs", axes * np.array(c["shape"])[:, None], 1e-12)]
        return "m.cube", text, exp, {}


class GJF(Fmt):
    name = "gaussianinput"
    space = [("natom", [3, 1, 50]), ("elements", ["OHH", "two-letter"]), ("coords", ["small", "negative"]), ("link0", [1, 0, 3]), ("route", [1, 2]), T(8), ("ext", ["com", "gjf"])]

    def make(self, c, seed):
        z = elements(c["elements"], c["natom"], seed)
        r = coords(c["coords"], c["natom"], 4, ANG, seed)
        text = writers.gaussian_input(z, r, c["title"], tuple(f"%mem={i + 1}GB" for i in range(c["link0"])), ("#p hf/sto-3g", "scf=tight")[: c["route"]])
        return f"m.{c['ext']}", text, [("atnums", z, None), ("atcoords", r, 1e-9), ("title", c["title"], None)], {}


def sym2(n, seed, scale=1.0):
    a = np.array([[((i * 7 + j * 3 + seed) % 11 - 5) * 0.125 + (1.5 if i == j else 0.0) + 0.001 * (i * n + j) for j in range(n)] for i in range(n)])
    return (a + a.T) / 2 * scale


def eri(n, seed):
    """Chemists' (ij|kl) with full 8-fold symmetry and pairwise distinct values on the unique set."""
    out = np.zeros((n, n, n, n))
    k = 0
    for i in range(n):
        for j in range(i + 1):
            for kk in range(n):
                for l in range(kk + 1):
                    if i * (i + 1) // 2 + j >= kk * (kk + 1) // 2 + l:
                        k += 1
                        v = 0.03125 * k + 0.25 + 0.001 * seed
                        for (a, b, c, d) in ((i, j, kk, l), (j, i, kk, l), (i, j, l, kk), (j, i, l, kk), (kk, l, i, j), (l, kk, i, j), (kk, l, j, i), (l, kk, j, i)):
                            out[a, b, c, d] = v
    return out


class FCIDUMP(Fmt):
    name = "fcidump"
    space = [("norb", [2, 1, 3, 4]), ("nelec", [2, 0, 5]), ("ms2", [0, 1]), ("core", [1.5, -0.0625, None]), ("end", ["&END", "/", "/END"]), ("name", ["FCIDUMP", "m.fcidump", "x.FCIDUMP.y"])]

    def make(self, c, seed):
        n = c["norb"]
        one = sym2(n, seed)
        chem = eri(n, seed)
        phys = chem.transpose(0, 2, 1, 3)  # <ij|kl> = (ik|jl)
        text = writers.fcidump(one, phys, c["core"], c["nelec"], c["ms2"], c["end"])
        exp = [("one_ints.core_mo", one, 1e-15), ("two_ints.two_mo", phys, 1e-15), ("core_energy", c["core"] if c["core"] is not None else 0.0, 1e-15), ("nelec", c["nelec"], 0), ("spinpol", c["ms2"], 0)]
        return c["name"], text, exp, {}


class GLOG(Fmt):
    name = "gaussianlog"
    space = [("nbasis", [4, 1, 5, 6, 11]), ("matrices", ["all", "overlap", "eri-only", "none"]), ("values", ["positive", "signed"])]

    def make(self, c, seed):
        n = c["nbasis"]
        s, t, v = sym2(n, seed), sym2(n, seed + 1, 0.5), sym2(n, seed + 2, -2.0)
        if c["values"] == "signed":
            s = s * (-1.0) ** (np.add.outer(np.arange(n), np.arange(n)))
        chem = eri(n, seed) if n <= 6 else None
        which = c["matrices"]
        text = writers.gaussian_log(n, s if which in ("all", "overlap") else None, t if which == "all" else None, v if which == "all" else None, chem if which in ("all", "eri-only") else None)
        exp = []
        rnd = lambda m: np.array([[float(f"{x:.6E}") for x in row] for row in m])  # noqa: E731
        if which in ("all", "overlap"):
            exp.append(("one_ints.olp", rnd(s), 1e-12))
        if which == "all":
            exp += [("one_ints.kin_ao", rnd(t), 1e-12), ("one_ints.na_ao", rnd(v), 1e-12)]
        if which in ("all", "eri-only") and chem is not None:
            exp.append(("two_ints.er_ao", chem.transpose(0, 2, 1, 3), 1e-12))
        return "m.log", text, exp, {}


class FCHKW(Fmt):
    name = "fchk"
    space = [("natom", [2, 1, 3]), ("basis", ["sp", "+d6", "+d5", "+f10", "+f7", "SP-shell", "+g9", "+g15", "+h21", "+h11"]), ("mo", ["restricted", "unrestricted", "rohf"]), ("command", ["SP", "FOpt", "Freq", "Scan", "Force"]),
             ("matrices", ["none", "density", "density+spin", "hessian", "polarizability", "all"]), ("vectors", ["none", "mulliken", "gradient", "dipole", "quadrupole", "masses", "micopt", "all"]),
             ("energy", [True, False]), ("ecp", [False, True]), T(9)]

    def make(self, c, seed):
        from props import common
        from ref import gto, wfwriters

        n = c["natom"]
        z = [8, 1, 6][:n]
        xyz = np.array([[0.0, 0.0, 0.25], [0.0, 1.5, -0.75], [1.25, -0.5, 0.5]])[:n]
        shells = [(0, 0, [5.5, 0.75], [0.6, 0.5], None), (0, 1, [1.25], [1.0], None), ((n - 1), 0, [0.5], [1.0], None)]
        extra = {"sp": [], "+d6": [(0, 2, [0.875], [1.0], None)], "+d5": [(0, -2, [0.875], [1.0], None)], "+f10": [((n - 1), 3, [1.125], [1.0], None)], "+f7": [((n - 1), -3, [1.125], [1.0], None)],
                 "SP-shell": [(0, -1, [2.5, 0.625], [0.4, 0.7], [0.3, 0.8])], "+g9": [(0, -4, [1.5], [1.0], None)], "+g15": [(0, 4, [1.5], [1.0], None)], "+h21": [((n - 1), 5, [1.375], [1.0], None)], "+h11": [((n - 1), -5, [1.375], [1.0], None)]}[c["basis"]]
        shells = shells + extra
        fn = wfwriters.fchk_functions(shells)
        nb = gto.nbasis(fn)
        ca = common.int_matrix(nb, nb, seed).T * 0.125  # rows = orbitals
        nal, nbe = (2, 2) if c["mo"] == "restricted" else (2, 1)
        nal, nbe = min(nal, nb), min(nbe, nb)
        model = dict(title=c["title"], command=c["command"], lot="RHF" if c["mo"] == "restricted" else "UHF", basis="GEN", z=z, cores=[zi - (2.0 if c["ecp"] and i == 0 else 0.0) for i, zi in enumerate(z)],
                     xyz=xyz, shells=shells, nalpha=nal, nbeta=nbe, ea=-1.0 + 0.25 * np.arange(nb), ca=ca)
        if c["mo"] == "unrestricted":
            model["eb"] = -0.9 + 0.25 * np.arange(nb)
            model["cb"] = common.int_matrix(nb, nb, seed + 3).T * 0.125
        if c["energy"]:
            model["energy"] = -76.0625
        mats, vecs = c["matrices"], c["vectors"]
        if mats in ("density", "density+spin", "all"):
            model["density"] = sym2(nb, seed)
        if mats in ("density+spin", "all"):
            model["spin_density"] = sym2(nb, seed + 1, 0.5)
        if mats in ("hessian", "all"):
            model["hessian"] = sym2(3 * n, seed + 2, 0.25)
        if mats in ("polarizability", "all"):
            model["polarizability"] = sym2(3, seed + 4, 4.0)
        if vecs in ("mulliken", "all"):
            model["mulliken"] = [round(-0.6 + 0.55 * i, 6) for i in range(n)]
        if vecs in ("gradient", "all"):
            model["gradient"] = np.arange(3.0 * n).reshape(n, 3) * 0.015625 - 0.125
        if vecs in ("dipole", "all"):
            model["dipole"] = [0.125, -0.75, 1.5]
        if vecs in ("quadrupole", "all"):
            model["quadrupole"] = [1.0, 2.0, 3.0, 4.0, 5.0, 6.0]  # XX YY ZZ XY XZ YZ
        if vecs in ("masses", "all"):
            model["masses_amu"] = [15.99491, 1.00783, 12.0][:n]
        if vecs in ("micopt", "all"):
            model["micopt"] = [0, -2, 0][:n]
        text = wfwriters.fchk(model)
        bv = gto.eval_basis(fn, wfwriters.FCHK_CONV, xyz, gto.PROBE_POINTS[:8])
        truth = ca @ bv if c["mo"] != "unrestricted" else np.vstack([ca @ bv, model["cb"] @ bv])
        exp = [("atnums", z, None), ("atcorenums", model["cores"], 1e-12), ("atcoords", xyz, 1e-12), ("title", c["title"], None), ("@orbital-values", truth, 1e-7),
               ("mo.energies", list(model["ea"]) + (list(model["eb"]) if "eb" in model else []), 1e-12),
               ("run_type", {"SP": "energy", "FOpt": "opt", "Freq": "freq", "Scan": "scan", "Force": "energy_force"}[c["command"]], None), ("lot", model["lot"].lower(), None), ("obasis_name", "gen", None)]
        if c["mo"] == "unrestricted":
            occs = [1.0] * nal + [0.0] * (nb - nal) + [1.0] * nbe + [0.0] * (nb - nbe)
        else:
            occs = [2.0] * nbe + [1.0] * (nal - nbe) + [0.0] * (nb - nal)
        exp.append(("mo.occs", occs, 0))
        if c["energy"]:
            exp.append(("energy", model["energy"], 1e-12))
        for key, attr in (("density", "one_rdms.scf"), ("spin_density", "one_rdms.scf_spin"), ("hessian", "athessian"), ("polarizability", "extra.polarizability_tensor")):
            if key in model and not (key == "density" and c["mo"] == "rohf"):
                exp.append((attr, np.array([[float(f"{v:.8E}") for v in row] for row in model[key]]), 1e-12))
        if "mulliken" in model:
            exp.append(("atcharges.mulliken", model["mulliken"], 1e-12))
        if "gradient" in model:
            exp.append(("atgradient", model["gradient"], 1e-12))
        if "dipole" in model:
            exp.append(("moments.(1, 'c')", model["dipole"], 1e-12))
        if "quadrupole" in model:
            q = model["quadrupole"]
            exp.append(("moments.(2, 'c')", [q[0], q[3], q[4], q[1], q[5], q[2]], 1e-12))  # xx xy xz yy yz zz
        if "masses_amu" in model:
            exp.append(("atmasses", np.array(model["masses_amu"]) * units.amu, 1e-4))
        if "micopt" in model:
            exp.append(("atfrozen", [v == -2 for v in model["micopt"]], None))
        return "m.fchk", text, exp, {}


class WFNW(Fmt):
    name = "wfn"
    space = [("natom", [2, 1, 3]), ("basis", ["sp", "+d", "+f", "+g", "+h"]), ("layout", ["by-primitive", "by-type"]), ("mo", ["restricted", "unrestricted-mospin", "restricted-mospin"]), ("exponents", ["D", "E"]),
             ("coords", ["small", "negative-touching"]), T(10)]
    container = "wfn"

    def model(self, c, seed):
        from props import common

        n = c["natom"]
        z = [8, 1, 6][:n]
        xyz = np.array([[0.0, 0.0, 0.25], [0.0, 1.5, -0.75], [1.25, -0.5, 0.5]])[:n]
        if c["coords"] == "negative-touching":
            xyz = xyz - np.array([10.5, 20.25, 30.125])  # F12.8 fields filled to the sign
        shells = [(0, 0, [5.5, 0.75]), (0, 1, [1.25, 0.5]), (n - 1, 0, [0.5])] + {"sp": [], "+d": [(0, 2, [0.875, 0.375])], "+f": [(n - 1, 3, [1.125])], "+g": [(0, 4, [1.5])], "+h": [(n - 1, 5, [1.375])]}[c["basis"]]
        start = {0: 1, 1: 2, 2: 5, 3: 11, 4: 21, 5: 36}
        count = {0: 1, 1: 3, 2: 6, 3: 10, 4: 15, 5: 21}
        prims = []
        for ic, l, exps in shells:
            codes = list(range(start[l], start[l] + count[l]))
            if c["layout"] == "by-primitive":
                for e in exps:
                    prims += [(ic, code, e) for code in codes]
            else:
                for code in codes:
                    prims += [(ic, code, e) for e in exps]
        npr = len(prims)
        norb = min(4, npr)
        coefs = common.int_matrix(norb, npr, seed) * 0.0625
        if c["mo"] == "unrestricted-mospin":
            occ = [1.0, 1.0, 1.0, 0.0][:norb]
            spin = [1, 1, 2, 2][:norb]
            en = [-1.5, -0.5, -1.25, 0.25][:norb]
        else:
            occ = [2.0, 2.0, 1.0, 0.0][:norb]
            spin = [3] * norb if c["mo"] == "restricted-mospin" else None
            en = [-1.5, -1.0, -0.5, 0.25][:norb]
        mos = [(i + 1, occ[i], en[i], coefs[i].tolist()) for i in range(norb)]
        return z, xyz, prims, mos, spin

    def make(self, c, seed):
        from ref import gto, wfwriters

        z, xyz, prims, mos, spin = self.model(c, seed)
        text = wfwriters.wfn(c["title"], z, xyz, prims, mos, -76.0625, 2.00125, spin, exp_d=c["exponents"] == "D")
        truth = wfwriters.eval_primitive_orbitals(xyz, prims, [(m[0], m[1], m[2], [float(f"{v:.8E}") for v in m[3]]) for m in mos], gto.PROBE_POINTS[:8] + xyz[0])
        exp = [("atnums", z, None), ("atcoords", xyz, 1e-12), ("title", c["title"], None), ("@orbital-values+origin", (truth, xyz[0]), 1e-9), ("mo.occs", [m[1] for m in mos], 1e-12),
               ("mo.energies", [m[2] for m in mos], 1e-12), ("energy", -76.0625, 1e-12), ("extra.virial_ratio", 2.00125, 1e-12)]
        if spin is not None:
            exp.append(("extra.mo_spin", spin, None))
            exp.append(("mo.kind", "unrestricted" if c["mo"] == "unrestricted-mospin" else "restricted", None))
        return "m.wfn", text, exp, {}


class WFXW(WFNW):
    name = "wfx"
    space = [("natom", [3, 1, 2])] + [a for a in WFNW.space if a[0] not in ("exponents", "mo", "natom")] + [("mo", ["restricted", "unrestricted"]), ("gradient", [False, True, "rotated-rows", "reversed-rows"])]

    def make(self, c, seed):
        from ref import gto, wfwriters

        c2 = dict(c, mo="unrestricted-mospin" if c["mo"] == "unrestricted" else "restricted", exponents="E")
        z, xyz, prims, mos, _ = self.model(c2, seed)
        norb = len(mos)
        if c["mo"] == "unrestricted":
            spins = (["Alpha", "Alpha", "Beta", "Beta"])[:norb]
            nal, nbe = 2, 1
        else:
            spins = ["Alpha and Beta"] * norb
            nal, nbe = 3, 2
        grad = np.arange(3.0 * len(z)).reshape(-1, 3) * 0.015625 - 0.125 if c["gradient"] else None
        # every gradient row carries the name of its nucleus: the rows may be printed in any order
        order = None if c["gradient"] in (False, True) else list(range(1, len(z))) + [0] if c["gradient"] == "rotated-rows" else list(range(len(z)))[::-1]
        text = wfwriters.wfx(c["title"], z, [float(v) for v in z], xyz, prims, mos, spins, -76.0625, 2.00125, nal, nbe, 0.0, grad, order)
        truth = wfwriters.eval_primitive_orbitals(xyz, prims, mos, gto.PROBE_POINTS[:8] + xyz[0])
        exp = [("atnums", z, None), ("atcoords", xyz, 1e-12), ("title", c["title"], None), ("@orbital-values+origin", (truth, xyz[0]), 1e-9), ("mo.occs", [m[1] for m in mos], 1e-12),
               ("mo.energies", [m[2] for m in mos], 1e-12), ("energy", -76.0625, 1e-12), ("extra.virial_ratio", 2.00125, 1e-12), ("mo.kind", c["mo"], None)]
        if grad is not None:
            exp.append(("atgradient", grad, 1e-12))
        return "m.wfx", text, exp, {}


class MWFNW(Fmt):
    name = "mwfn"
    space = [("natom", [2, 1, 3]), ("basis", ["sp", "+d6", "+d5", "+f10", "+f7", "+g9"]), ("mo", ["restricted", "unrestricted", "rohf"]), ("density", [False, True]), ("ecp", [False, True]),
             ("syms", [False, True]), ("coords", ["small", "negative"]), ("independent", ["all", "one-less"])]

    def make(self, c, seed):
        from props import common
        from ref import gto, wfwriters

        n = c["natom"]
        z = [8, 1, 6][:n]
        xyz = np.array([[0.0, 0.0, 0.25], [0.0, 1.5, -0.75], [1.25, -0.5, 0.5]])[:n]
        if c["coords"] == "negative":
            xyz = xyz - np.array([10.5, 20.25, 30.125])
        xyz = np.round(xyz / ANG, 8) * ANG  # the format prints angstrom with 8 decimals
        shells = [(0, 0, [5.5, 0.75], [0.6, 0.5], None), (0, 1, [1.25], [1.0], None), ((n - 1), 0, [0.5], [1.0], None)]
        shells += {"sp": [], "+d6": [(0, 2, [0.875], [1.0], None)], "+d5": [(0, -2, [0.875], [1.0], None)], "+f10": [((n - 1), 3, [1.125], [1.0], None)], "+f7": [((n - 1), -3, [1.125], [1.0], None)],
                   "+g9": [(0, -4, [1.5], [1.0], None)]}[c["basis"]]
        fn = wfwriters.fchk_functions(shells)
        nb = gto.nbasis(fn)
        nind = nb if c["independent"] == "all" else nb - 1  # linearly dependent combinations removed: fewer orbitals than basis functions
        ca = (common.int_matrix(nb, nb, seed).T * 0.125)[:nind]
        wfntype = {"restricted": 0, "unrestricted": 1, "rohf": 2}[c["mo"]]
        nal, nbe = (2, 2) if c["mo"] == "restricted" else (2, 1)
        nal, nbe = min(nal, nind), min(nbe, nind)
        ea = -1.0 + 0.25 * np.arange(nind)
        model = dict(title="", z=z, cores=[zi - (2.0 if c["ecp"] and i == 0 else 0.0) for i, zi in enumerate(z)], xyz=xyz, shells=shells, nalpha=nal, nbeta=nbe, ea=ea, ca=ca,
                     energy=-76.0625, virial=2.00125, wfntype=wfntype, charge=float(sum(z) - (2.0 if c["ecp"] else 0.0) - nal - nbe))
        if c["mo"] == "unrestricted":
            model["eb"] = -0.9 + 0.25 * np.arange(nind)
            model["cb"] = (common.int_matrix(nb, nb, seed + 3).T * 0.125)[:nind]
            model["occs"] = [1.0] * nal + [0.0] * (nind - nal) + [1.0] * nbe + [0.0] * (nind - nbe)
        else:
            model["occs"] = [2.0] * nbe + [1.0] * (nal - nbe) + [0.0] * (nind - nal)
        if c["syms"]:
            model["syms"] = [["A1", "B2", "A'", "E1g"][i % 4] for i in range(len(model["occs"]))]
        if c["density"]:
            model["density"] = sym2(nb, seed)
        text = wfwriters.mwfn(model)
        bv = gto.eval_basis(fn, wfwriters.FCHK_CONV, xyz, gto.PROBE_POINTS[:8] + xyz[0])
        truth = ca @ bv if c["mo"] != "unrestricted" else np.vstack([ca @ bv, model["cb"] @ bv])
        exp = [("atnums", z, None), ("atcorenums", model["cores"], 1e-12), ("atcoords", xyz, 1e-9), ("@orbital-values+origin", (truth, xyz[0]), 1e-7), ("energy", -76.0625, 1e-12),
               ("mo.energies", list(ea) + (list(model["eb"]) if "eb" in model else []), 1e-12), ("mo.occs", model["occs"], 1e-12), ("mo.kind", "unrestricted" if c["mo"] == "unrestricted" else "restricted", None),
               ("extra.wfntype", wfntype, None), ("extra.full_virial_ratio", 2.00125, 1e-12)]
        if c["syms"]:
            exp.append(("extra.mo_sym", model["syms"], None))
        # (the loader does not claim the optional matrices; the section must merely not disturb it)
        return "m.mwfn", text, exp, {}


class ORCALOG(Fmt):
    name = "orcalog"
    space = [("natom", [3, 1, 12]), ("coords", ["small", "negative"]), ("steps", [1, 3]), ("dipole", [True, False]), ("scf_cycles", [4, 1, 12]), ("name", ["calc.out", "orca_job.out"])]

    def make(self, c, seed):
        n = c["natom"]
        z = elements("many", n, seed)
        final = coords(c["coords"], n, 6, 1.0, seed)  # the table in atomic units has six decimals
        steps = []
        for k in range(c["steps"]):
            last = k == c["steps"] - 1
            xyz = final if last else final + 0.125 * (c["steps"] - k)
            scf = [round(-76.0 - 0.25 * k - 0.01 * j - 0.001 * j * j, 8) for j in range(c["scf_cycles"])]
            steps.append((xyz, scf, round(scf[-1] - 0.000123456789, 12)))
        dip = np.array([0.76499, -0.12345, 0.5423]) if c["dipole"] else None
        text = writers.orca_log(z, steps, dip)
        exp = [("atnums", z, None), ("atcoords", final, 1e-12), ("energy", steps[-1][2], 1e-12), ("extra.scf_energies", steps[-1][1], 1e-12)]
        if dip is not None:
            exp.append(("moments.(1, 'c')", dip, 1e-12))
        return c["name"], text, exp, {}


class QCHEMLOG(Fmt):
    name = "qchemlog"
    fmt = "qchemlog"
    space = [("natom", [3, 1, 12]), ("coords", ["small", "negative"]), ("unrestricted", ["0", "1", "false", "absent"]), ("norb", [7, 3, 20]), ("mulliken", [True, False]), ("moments", [True, False]),
             ("jobtype", ["sp", "opt", "absent"]), ("method", ["hf", "b3lyp"])]

    def make(self, c, seed):
        n = c["natom"]
        z = elements("OHH", n, seed)
        r = coords(c["coords"], n, 10, ANG, seed)
        rem = {}
        if c["jobtype"] != "absent":
            rem["jobtype"] = c["jobtype"]
        rem["method"] = c["method"]
        if c["unrestricted"] != "absent":
            rem["unrestricted"] = c["unrestricted"]
        rem["basis"] = "cc-pvtz"
        unres = c["unrestricted"] == "1"
        norb = c["norb"]
        nel = int(sum(z))
        na = min((nel + 1) // 2 + (1 if unres else 0), norb)
        nb = min(nel // 2 - (1 if unres else 0), na)
        en = lambda k, shift: round(-20.5 + 1.375 * k + shift, 4)  # noqa: E731
        occ_a, vir_a = [en(k, 0.0) for k in range(na)], [en(k, 0.0) for k in range(na, norb)]
        occ_b, vir_b = ([en(k, 0.0625) for k in range(nb)], [en(k, 0.0625) for k in range(nb, norb)]) if unres else (None, None)
        mull = [round(-0.4 + 0.3 * i - 0.01 * (i % 3), 6) for i in range(n)] if c["mulliken"] else None
        dip = np.array([1.4989, 1.1097, -0.7840]) if c["moments"] else None
        quad = np.array([-6.1922, 0.2058, -5.0469, -0.9308, 1.1096, -5.7620]) if c["moments"] else None  # XX XY YY XZ YZ ZZ
        text = writers.qchem_log(z, r, rem, na, nb, 3 * norb, -76.0571936393, occ_a, vir_a, occ_b, vir_b, mull, dip, quad)
        exp = [("atnums", z, None), ("atcoords", r, 1e-9), ("energy", -76.0571936393, 1e-12), ("lot", c["method"], None), ("obasis_name", "cc-pvtz", None),
               ("mo.kind", "unrestricted" if unres else "restricted", None), ("mo.energies", occ_a + vir_a + ((occ_b + vir_b) if unres else []), 1e-12),
               ("mo.occs", ([1.0] * na + [0.0] * (norb - na) + [1.0] * nb + [0.0] * (norb - nb)) if unres else [2.0] * nb + [1.0] * (na - nb) + [0.0] * (norb - na), 0),
               ("extra.nuclear_repulsion_energy", 9.19775748, 1e-12)]
        if c["jobtype"] != "absent":
            exp.append(("run_type", c["jobtype"], None))
        if mull is not None:
            exp.append(("atcharges.mulliken", mull, 1e-12))
        if dip is not None:
            # the unit of the moments is C04's subject (known finding): directions and the order of the components are judged here
            exp.append(("@relative:moments.(1, 'c')", dip, 1e-9))
            exp.append(("@relative:moments.(2, 'c')", quad[[0, 1, 3, 2, 4, 5]], 1e-9))  # xx xy xz yy yz zz
        return "calc.qchemlog", text, exp, {}


class QCSCHEMA(Fmt):
    """QCSchema JSON written with the json module from the documented field tables (molecule / input / output)."""

    name = "json_qcschema"
    fmt = "json_qcschema"
    space = [("schema", ["qcschema_molecule", "qcschema_input", "qcschema_output"]), ("natom", [3, 1, 6]), ("charge_mult", [(0, 1), (1, 2), (-1, 2), (0, 3), (2.0, 1)]),
             ("masses", ["absent", "masses", "mass_numbers"]), ("real", ["absent", "all-true", "one-ghost"]), ("connectivity", ["absent", "chain"]),
             ("optional", ["none", "name+symmetry", "atomic_numbers", "all"]), ("coords", ["small", "negative"]), ("model", ["HF/sto-3g", "B3LYP/def2-tzvp"]),
             ("run_type", ["absent", "energy", "opt", "freq"]), ("provenance", ["dict", "list", "absent"])]

    def make(self, c, seed):
        import json

        n = c["natom"]
        z = elements("OHH", n, seed) if n <= 3 else [8, 1, 1, 6, 17, 3][:n]
        r = coords(c["coords"], n, 10, 1.0, seed)  # the geometry is given in bohr
        charge, mult = c["charge_mult"]
        mol = {"schema_name": "qcschema_molecule", "schema_version": 2, "symbols": [writers.sym(zi) for zi in z], "geometry": [float(v) for v in r.ravel()],
               "molecular_charge": charge, "molecular_multiplicity": mult}
        if c["provenance"] == "dict":
            mol["provenance"] = {"creator": "verif", "version": "1", "routine": "ref"}
        elif c["provenance"] == "list":
            mol["provenance"] = [{"creator": "verif"}, {"creator": "other", "routine": "x"}]
        exp = [("atnums", z, None), ("atcoords", r, 1e-12), ("charge", float(charge), 1e-12), ("spinpol", mult - 1, None)]
        masses_u = [round(periodic_mass(zi), 6) for zi in z]
        if c["masses"] == "masses":
            mol["masses"] = masses_u
            exp.append(("atmasses", np.array(masses_u) * units.amu, ("rel", 1e-12)))
        elif c["masses"] == "mass_numbers":
            mol["mass_numbers"] = [int(round(m)) for m in masses_u]
            exp.append(("atmasses", np.array([int(round(m)) for m in masses_u]) * units.amu, ("rel", 1e-12)))
        cores = [float(zi) for zi in z]
        if c["real"] != "absent":
            real = [True] * n
            if c["real"] == "one-ghost" and n > 1:
                real[-1] = False
                cores[-1] = 0.0
            mol["real"] = real
        exp.append(("atcorenums", cores, 1e-12))
        if c["connectivity"] == "chain" and n > 1:
            mol["connectivity"] = [[i, i + 1, 1 + (i % 3)] for i in range(n - 1)]
            exp.append(("bonds", [[i, i + 1, 1 + (i % 3)] for i in range(n - 1)], None))
        if c["optional"] in ("name+symmetry", "all"):
            mol["name"] = "test molecule"
            mol["fix_symmetry"] = "c2v"
            exp += [("title", "test molecule", None), ("g_rot", "c2v", None)]
        if c["optional"] in ("atomic_numbers", "all"):
            mol["atomic_numbers"] = [int(zi) for zi in z]
        if c["optional"] == "all":
            mol.update(comment="a comment", atom_labels=[f"L{i}" for i in range(n)], fix_com=True, fix_orientation=False, validated=False, id="m1")
        if c["schema"] == "qcschema_molecule":
            doc = mol
        else:
            method, basis = c["model"].split("/")
            doc = {"schema_name": c["schema"], "schema_version": 2.0, "molecule": mol, "driver": "energy", "model": {"method": method, "basis": basis}}
            if c["run_type"] != "absent":
                doc["keywords"] = {"run_type": c["run_type"]}
                exp.append(("run_type", c["run_type"], None))
            if c["provenance"] != "absent":
                doc["provenance"] = {"creator": "verif", "routine": "ref"}
            exp += [("lot", method, None)]
            if c["schema"] == "qcschema_output":
                doc.update(properties={"return_energy": -76.0625, "calcinfo_natom": n}, return_result=-76.0625, success=True)
                exp.append(("energy", -76.0625, 1e-12))
        return "m.json", json.dumps(doc, indent=1), exp, {}


class GAMESS(Fmt):
    name = "gamess"
    space = [("natom", [3, 1, 34]), ("steps", [1, 2]), ("sections", ["all", "no-hessian", "no-masses", "hessian-only", "coordinates-only"]), ("approx_hessian", [False, True]), ("coords", ["small", "negative", "touching"]), T(11)]

    def make(self, c, seed):
        n = c["natom"]
        z = elements("many", n, seed)
        r = coords(c["coords"], n, 10, ANG, seed)
        steps = []
        for k in range(c["steps"]):
            last = k == c["steps"] - 1
            grad = None if c["sections"] in ("hessian-only", "coordinates-only") else np.array([[float(f"{v:.10E}") for v in row] for row in (np.arange(3.0 * n).reshape(n, 3) * 0.0009765625 - 0.0123 * (k + 1))])
            steps.append((r if last else r + 0.125 * ANG, -40.5 - 0.25 * k, grad))
        hess = sym2(3 * n, seed + 2, 0.25) if c["sections"] in ("all", "no-masses", "hessian-only") else None
        approx = sym2(3 * n, seed + 5, 0.5) if c["approx_hessian"] else None
        masses = [round(periodic_mass(zi), 5) for zi in z] if c["sections"] in ("all", "no-hessian") else None
        text = writers.gamess_punch(c["title"], z, steps, hess, approx, masses)
        exp = [("title", c["title"].strip(), None), ("atnums", z, None), ("atcoords", r, 1e-9)]
        if steps[-1][2] is not None:
            exp += [("energy", steps[-1][1], 1e-12), ("atgradient", steps[-1][2], 1e-15)]
        if hess is not None:
            exp.append(("athessian", np.array([[float(f"{v:.8E}") for v in row] for row in hess]), 1e-15))
        if masses is not None:
            exp.append(("@mass-ratios", np.array(masses) / masses[0], 1e-9))  # the unit of the masses is C04's subject
        return "m.dat", text, exp, {}


FORMATS = [FCHKW(), WFNW(), WFXW(), MWFNW(), GAMESS(), QCSCHEMA(), ORCALOG(), QCHEMLOG(), XYZ(), EXTXYZ(), PDB(), MOL2(), SDF(), GRO(), CRD(), VASP(), CHGCAR(), LOCPOT(), CUBE(), GJF(), FCIDUMP(), GLOG()]


def lookup(obj, path):
    cur = obj
    parts = path.replace("[:, :2]", "").split(".")
    if "(" in path:  # keys like moments.(1, 'c')
        head, _, key = path.partition(".(")
        parts = [*head.split("."), eval("(" + key)]  # noqa: S307 - harness-internal literal
    for part in parts:
        if isinstance(cur, dict):
            cur = cur.get(part)
        else:
            cur = getattr(cur, part, None)
        if cur is None:
            return None
    return cur


def compare(obj, exp):
    problems = []
    for path, want, tol in exp:
        if path.startswith("@orbital-values"):
            from props import common as _common
            from ref import gto as _gto

            pts = _gto.PROBE_POINTS[:8]
            if path.endswith("+origin"):
                want, origin = want
                pts = pts + origin
            try:
                bv = _gto.eval_basis(_common.plain(obj.obasis), obj.obasis.conventions, obj.atcoords, pts)
                got = obj.mo.coeffs.T @ bv
            except Exception as exc:  # noqa: BLE001
                problems.append((path, f"orbitals of the loaded object cannot be evaluated: {exc!r}"))
                continue
            scale = np.abs(want).max() + 1e-300
            if got.shape != want.shape or np.abs(got - want).max() > tol * scale:
                i, p = (0, 0) if got.shape != want.shape else np.unravel_index(np.abs(got - want).argmax(), want.shape)
                problems.append(("orbital-values", f"orbital {i} at probe point {p}: the file denotes {want[i, p] if got.shape == want.shape else want.shape!r}, the loaded object {got[i, p] if got.shape == want.shape else got.shape!r}"))
            continue
        if path.startswith("@relative:"):
            path = path.split(":", 1)[1]
            got = lookup(obj, path)
            if got is not None and np.linalg.norm(np.asarray(got, dtype=float)) > 0:
                got = np.asarray(got, dtype=float) / np.linalg.norm(np.asarray(got, dtype=float))
                want = np.asarray(want, dtype=float) / np.linalg.norm(np.asarray(want, dtype=float))
            path = path + "(direction)"
        elif path == "@mass-ratios":
            got = None if obj.atmasses is None or len(obj.atmasses) == 0 else np.asarray(obj.atmasses, dtype=float) / float(obj.atmasses[0])
            path = "atmasses(relative)"
        else:
            got = lookup(obj, path)
        if got is None:
            problems.append((path, f"{path}: expected {short(want)}, loaded None"))
            continue
        if tol == "pairs":
            g = sorted((int(min(a, b)), int(max(a, b))) for a, b in np.asarray(got)[:, :2])
            if g != [tuple(w) for w in want]:
                problems.append((path, f"{path}: file says {short(want)}, loaded {short(g)}"))
            continue
        if isinstance(want, str):
            if got != want:
                problems.append((path, f"{path}: file says {want!r}, loaded {got!r}"))
            continue
        w = np.asarray(want)
        g = np.asarray(got)
        if w.size == 0 and g.size == 0:
            continue
        if w.dtype.kind in "US" or tol is None:
            if w.shape != g.shape or not (w == g).all():
                problems.append((path, f"{path}: file says {short(want)}, loaded {short(got)}"))
            continue
        w = w.astype(float)
        g = g.astype(float)
        if w.shape != g.shape:
            problems.append((path, f"{path}: shape {w.shape} in the file, {g.shape} loaded"))
            continue
        # 5e-9 relative: the CODATA release behind the unit factors may differ (C04 judges the constants themselves)
        t = (tol[1] * np.abs(w) + 1e-300 if isinstance(tol, tuple) else tol) + 5e-9 * np.abs(w)
        bad = np.abs(w - g) > t
        if bad.any():
            idx = tuple(int(i) for i in np.argwhere(bad)[0])
            hint = ""
            if w.ndim >= 1 and w.size > 1 and np.allclose(np.sort(w.ravel()), np.sort(g.ravel()), rtol=1e-9, atol=float(np.max(t))):
                hint = " [same values at other positions]"
            problems.append((path, f"{path}{list(idx)}: file says {w[idx]!r}, loaded {g[idx]!r}{hint}"))
    return problems


def short(x):
    s = repr(np.asarray(x).tolist()) if not isinstance(x, str) else repr(x)
    return s if len(s) < 100 else s[:97] + "..."


def worker(chunk, seed, tier):
    from iodata import load_many, load_one
    from mc.core import Part, make_scratch

    part = Part(seed, tier)
    tmp = make_scratch()
    fmts = {f.name: f for f in FORMATS}
    try:
        for name, case in chunk:
            f = fmts[name]
            part.count()
            devs = dbe.dev_str(f.space, case)
            info = {"format": name, **case}
            part.nontrivial(f"{name}:{devs}")
            if len(part.samples) < 1 and devs != "default":
                part.sample(info)
            fname, text, exp, kw = f.make(case, seed)
            path = str(tmp / fname)
            with open(path, "w") as fh:
                fh.write(text)
            with warnings.catch_warnings():
                warnings.simplefilter("ignore")
                try:
                    obj = load_one(path, fmt=f.fmt, **kw)
                except Exception as exc:  # noqa: BLE001
                    part.outcome("load", "REJECTED")
                    part.violation("load", f"{name}:well-formed-file-rejected:{devs}", info, f"{name} [{devs}]: a file following the format's layout is rejected: {exc!r} caused by {exc.__cause__!r}"[:500])
                    continue
            problems = compare(obj, exp)
            part.outcome("values", "as-in-file" if not problems else "DIFFER")
            for path_, msg in problems:
                part.violation("values", f"{name}:{path_}:{devs}", info, f"{name} [{devs}]: {msg}")
            # the same through load_many (first frame) where available
            from iodata.api import FORMAT_MODULES

            if hasattr(FORMAT_MODULES[name], "load_many") and not problems and name != "fchk":  # a single-point FCHK file holds no trajectory
                with warnings.catch_warnings():
                    warnings.simplefilter("ignore")
                    try:
                        frames = list(load_many(path, fmt=f.fmt, **kw))
                    except Exception as exc:  # noqa: BLE001
                        part.violation("load", f"{name}:load_many-rejects:{devs}", info, f"{name} [{devs}] load_many: {exc!r}")
                        continue
                if len(frames) != 1 or compare(frames[0], exp):
                    part.violation("values", f"{name}:load_many-differs:{devs}", info, f"{name} [{devs}]: load_many yields {len(frames)} frames / different values")
    finally:
        shutil.rmtree(tmp, ignore_errors=True)
    return part.result()


def minimise(ctx):
    fmts = {f.name: f for f in FORMATS}
    cache, known, new = {}, {}, []
    gen = [v for v in ctx.violations if "format" in v.case and v.case["format"] in fmts and v.clause in ("values", "load")]
    rest = [v for v in ctx.violations if v not in gen]
    gen.sort(key=lambda v: len(dbe.deviations(fmts[v.case["format"]].space, {n: _restore(v.case[n], m) for n, m in fmts[v.case["format"]].space})))
    for v in gen:
        f = fmts[v.case["format"]]
        default = {n: m[0] for n, m in f.space}
        case = {n: _restore(v.case[n], m) for n, m in f.space}
        head = v.sig.rsplit(":", 1)[0]
        small = None
        for k in known.get(head, []):
            if all(case[n] == val for n, val in k.items() if val != default[n]):
                small = k
                break
        if small is None:

            def fails(trial, head=head, f=f):
                key = (head, repr(sorted(trial.items(), key=lambda kv: kv[0])))
                if key not in cache:
                    res = worker([(f.name, trial)], ctx.seed, ctx.tier)
                    cache[key] = any(x["sig"].rsplit(":", 1)[0] == head for x in res["violations"])
                return cache[key]

            small = dbe.minimise(f.space, case, fails)
            known.setdefault(head, []).append(small)
        new.append((v.clause, head + ":" + dbe.dev_str(f.space, small), {"format": f.name, **small}, v.detail))
    ctx.violations = rest
    for clause, sig, case, detail in new:
        ctx.violation(clause, sig, case, detail)


def _restore(value, menu):
    for m in menu:
        if (type(m) is type(value) and m == value) or (isinstance(m, tuple) and list(m) == value):
            return m
    return value


def run(ctx):
    from mc.pool import pmap

    k = 2 if ctx.thorough else 1
    jobs = []
    for f in FORMATS:
        for case in dbe.cases(f.space, k):
            nat = int(case.get("natom", 0) or 0)
            if nat >= 9999 and len(dbe.deviations(f.space, case)) > 1 and not ctx.thorough:
                continue
            jobs.append((f.name, case))
    jobs.sort(key=lambda j: -int(j[1].get("natom", 0) or 0))
    pmap(ctx, worker, jobs, chunk=8)
    minimise(ctx)
    c03meta.run(ctx)
    ctx.cov.update(dbe_k=k, writer_formats=[f.name for f in FORMATS], writer_cases=len(jobs))
    ctx.exhaustive = True
    ctx.rule = (
        f"(1) independent writers (ref/writers.py, ref/wfwriters.py) for {len(FORMATS)} formats (for FCHK, WFN and WFX the orbitals denoted by the file are evaluated from the file's own tables and compared with the loaded object through ref/gto.py): deviation-bounded enumeration k<={k} over atom counts crossing each counter's width, coordinates that fill their columns so that "
        "neighbouring fields touch, negative/wide values, all bond types, optional sections, block/line-length boundaries (5-column Gaussian-log blocks, ragged cube/VASP grid lines), direct/Cartesian/selective VASP modes, "
        "header variants; every attribute of the loaded object is compared with the model converted by hand-typed CODATA factors. (2) metamorphic token substitution on generated and corpus files of all 25 format "
        "modules (see coverage.metamorphic): every numeric token is replaced, one at a time, by a distinct value and by a column-filling variant; exactly the attribute elements that held the old value may change, "
        "and only to the new value under the same unit map. Distinct = (format, deviation set) / (file, token)."
    )
    ctx.assumptions += ["layouts typed from the public format descriptions cited by the iodata modules (DESIGN.md appendix A)", "Molden/Molekel standard layouts are exercised by C05's independent writers"]


def replay(ctx, payload):
    case = dict(payload["case"])
    fmts = {f.name: f for f in FORMATS}
    if case.get("format") in fmts and "token" not in case:
        name = case.pop("format")
        case = {n: _restore(case[n], m) for n, m in fmts[name].space}
        res = worker([(name, case)], payload.get("seed", 0), "quick")
        for v in res["violations"]:
            ctx.violation(v["clause"], v["sig"], v["case"], v["detail"])
    else:
        c03meta.replay(ctx, payload)
