"""C02/C15 domains of the five wavefunction formats (FCHK, Molden, Molekel, WFN, WFX).

The wavefunction itself (as a function of space) is judged by C01; here every *attribute the format stores* is
compared after one save/reload, with the object built in the format's own conventions so arrays compare directly.
"""

from __future__ import annotations

import numpy as np

from props import fmtspecs, wfn
from props.fmtspecs import Diff, Spec
from ref import units

WF_AXES = [
    ("centers", ["2", "1", "3", "6"]),
    ("shellset", ["+d-cart", "sp", "+d-pure", "+f-cart", "+f-pure"]),
    ("contraction", ["segmented", "3-primitives"]),
    ("mo", ["restricted", "rohf", "unrestricted", "unrestricted-na>nb", "occupied-only", "irreps"]),
]


def wf_case(case):
    c = {n: m[0] for n, m in wfn.SPACE}
    for k in ("centers", "shellset", "contraction", "mo"):
        c[k] = case[k]
    return c


def sym(n, seed, scale=1.0):
    a = np.array([[((i * 7 + j * 3 + seed) % 11 - 5) * 0.125 + (0.5 if i == j else 0.0) for j in range(n)] for i in range(n)])
    return (a + a.T) / 2 * scale


def basis_equal(d: Diff, o, b, exp_tol, coef_tol):
    if b.obasis is None:
        d.add("obasis", "obasis: read None")
        return
    so, sb = o.obasis.shells, b.obasis.shells
    if len(so) != len(sb):
        d.add("obasis", f"obasis: {len(so)} shells written, {len(sb)} read")
        return
    for i, (x, y) in enumerate(zip(so, sb)):
        if x.icenter != y.icenter or list(x.angmoms) != list(y.angmoms) or list(x.kinds) != list(y.kinds):
            d.add("obasis", f"obasis shell {i}: ({x.icenter},{list(x.angmoms)},{list(x.kinds)}) -> ({y.icenter},{list(y.angmoms)},{list(y.kinds)})")
            return
        d.close(f"obasis.shells[{i}].exponents", x.exponents, y.exponents, **exp_tol)
        d.close(f"obasis.shells[{i}].coeffs", x.coeffs, y.coeffs, **coef_tol)


def mo_equal(d: Diff, o, b, coeff_tol, en_tol, occ_tol, irreps=False):
    if b.mo is None:
        d.add("mo", "mo: read None")
        return
    if (o.mo.kind, o.mo.norba, o.mo.norbb) != (b.mo.kind, b.mo.norba, b.mo.norbb):
        d.add("mo", f"mo: ({o.mo.kind},{o.mo.norba},{o.mo.norbb}) -> ({b.mo.kind},{b.mo.norba},{b.mo.norbb})")
        return
    d.close("mo.coeffs", o.mo.coeffs, b.mo.coeffs, **coeff_tol)
    d.close("mo.energies", o.mo.energies, b.mo.energies, **en_tol)
    d.close("mo.occs", o.mo.occs, b.mo.occs, **occ_tol)
    if irreps and o.mo.irreps is not None:
        d.exact("mo.irreps", list(o.mo.irreps), [] if b.mo.irreps is None else list(b.mo.irreps))


class WfSpec(Spec):
    target = ""

    def base(self, case, seed):
        data, _ = wfn.build(wf_case(case), self.target, seed)
        return data


E9 = dict(rel_tol=0.6e-8, abs_tol=1e-300)  # 16.8E


class FCHK(WfSpec):
    name = "fchk"
    fname = "w.fchk"
    target = "fchk"
    space = WF_AXES + [
        ("shell_sp", [False, True]),
        ("title", ["generated wavefunction", None, "T"]),
        ("atmasses", [False, True]),
        ("atcharges", ["none", "mulliken", "esp", "npa", "mbs", "hirshfeld", "cm5", "all"]),
        ("one_rdms", ["none", "scf", "scf_spin", "post_scf_ao", "post_scf_spin_ao", "all"]),
        ("energy", [True, False]),
        ("atgradient", [False, True]),
        ("athessian", [False, True]),
        ("moments", ["none", "dipole", "quadrupole", "both"]),
        ("polarizability", [False, True]),
        ("names", ["none", "lot", "obasis_name", "both"]),
        ("run_type", [None, "energy", "opt", "scan", "freq", "energy_force"]),
        ("ecp", [False, True]),
    ]

    def build(self, case, seed):
        import attrs
        from iodata.basis import Shell

        wc = wf_case(case)
        if case["shell_sp"]:
            wc["contraction"] = "SP"
        data, _ = wfn.build(wc, "fchk", seed)
        n = data.natom
        nb = data.obasis.nbasis
        kw = {}
        if case["title"] != "generated wavefunction":
            kw["title"] = case["title"]
        if case["atmasses"]:
            kw["atmasses"] = np.array([15.9949146, 1.00782503, 2.01410178, 12.0, 14.003074, 7.016003][:n]) * units.amu
        keys = ["mulliken", "esp", "npa", "mbs", "hirshfeld", "cm5"]
        if case["atcharges"] != "none":
            use = keys if case["atcharges"] == "all" else [case["atcharges"]]
            kw["atcharges"] = {k: np.round(np.linspace(-0.6, 0.7, n) + 0.0125 * (keys.index(k) + 1), 8) for k in use}
        rk = ["scf", "scf_spin", "post_scf_ao", "post_scf_spin_ao"]
        if case["one_rdms"] != "none":
            use = rk if case["one_rdms"] == "all" else [case["one_rdms"]]
            kw["one_rdms"] = {k: sym(nb, seed + rk.index(k)) for k in use}
            if any("post" in k for k in use):
                kw["lot"] = "CCSD"
        if not case["energy"]:
            kw["energy"] = None
        if case["atgradient"]:
            kw["atgradient"] = np.arange(3.0 * n).reshape(n, 3) * 0.015625 - 0.5
        if case["athessian"]:
            kw["athessian"] = sym(3 * n, seed + 3, 0.25)
        mom = {}
        if case["moments"] in ("dipole", "both"):
            mom[(1, "c")] = np.array([0.125, -0.75, 1.5])
        if case["moments"] in ("quadrupole", "both"):
            mom[(2, "c")] = np.array([1.0, 2.0, 3.0, 4.0, 5.0, 6.0]) * 0.25
        if mom:
            kw["moments"] = mom
        if case["polarizability"]:
            kw["extra"] = {"polarizability_tensor": sym(3, seed + 9, 4.0)}
        if case["names"] in ("lot", "both") and "lot" not in kw:
            kw["lot"] = "rhf"
        if case["names"] in ("obasis_name", "both"):
            kw["obasis_name"] = "6-31g(d)"
        if case["run_type"] is not None:
            kw["run_type"] = case["run_type"]
        if case["ecp"]:
            cores = data.atnums.astype(float)
            cores[0] -= 2.0
            kw["atcorenums"] = cores
        return attrs.evolve(data, **kw), {}, {}

    def compare(self, o, b, case, d):
        d.exact("atnums", o.atnums, b.atnums)
        d.close("atcorenums", o.atcorenums, b.atcorenums, **E9)
        d.close("atcoords", o.atcoords, b.atcoords, rel_tol=0.6e-8, abs_tol=1e-12)
        if o.title is not None:
            d.exact("title", o.title, b.title)
        if o.atmasses is not None:
            d.close("atmasses", o.atmasses, b.atmasses, **E9)
        for k, v in o.atcharges.items():
            d.close(f"atcharges[{k}]", v, b.atcharges.get(k), **E9)
        for k, v in o.one_rdms.items():
            if k == "scf" and o.mo.kind == "restricted" and o.mo.spinpol != 0:
                continue  # documented: dropped on load for restricted open-shell files
            d.close(f"one_rdms[{k}]", v, b.one_rdms.get(k), **E9)
        if o.energy is not None:
            d.close("energy", o.energy, b.energy, **E9)
        if o.atgradient is not None:
            d.close("atgradient", o.atgradient, b.atgradient, **E9)
        if o.athessian is not None:
            d.close("athessian", o.athessian, b.athessian, **E9)
        for k, v in o.moments.items():
            d.close(f"moments[{k}]", v, b.moments.get(k), **E9)
        if "polarizability_tensor" in o.extra:
            d.close("extra[polarizability_tensor]", o.extra["polarizability_tensor"], b.extra.get("polarizability_tensor"), **E9)
        if o.lot is not None:
            d.exact("lot", o.lot.lower(), b.lot)
        if o.obasis_name is not None:
            d.exact("obasis_name", o.obasis_name.lower(), b.obasis_name)
        if o.run_type is not None:
            d.exact("run_type", o.run_type, b.run_type)
        basis_equal(d, o, b, E9, E9)
        occ = dict(abs_tol=0.0)
        mo_equal(d, o, b, E9, E9, occ)


class MOLDEN(WfSpec):
    name = "molden"
    fname = "w.molden"
    target = "molden"
    space = WF_AXES + [("title", ["generated wavefunction", None, "T"]), ("ecp", [False, True]), ("mo2", ["as-axis", "fractional"])]

    def build(self, case, seed):
        import attrs

        wc = wf_case(case)
        if case["mo2"] == "fractional":
            wc["mo"] = "fractional"
        data, _ = wfn.build(wc, "molden", seed)
        kw = {}
        if case["title"] != "generated wavefunction":
            kw["title"] = case["title"]
        if case["ecp"]:
            cores = data.atnums.astype(float)
            cores[0] -= 2.0
            kw["atcorenums"] = cores
        return (attrs.evolve(data, **kw) if kw else data), {}, {}

    def compare(self, o, b, case, d):
        d.exact("atnums", o.atnums, b.atnums)
        d.close("atcorenums", o.atcorenums, b.atcorenums, abs_tol=1e-12)
        d.close("atcoords", o.atcoords, b.atcoords, abs_tol=1e-15)
        if o.title is not None:
            d.exact("title", o.title, b.title)
        t10 = dict(abs_tol=0.6e-10)
        basis_equal(d, o, b, t10, t10)
        t17 = dict(rel_tol=4e-16, abs_tol=1e-300)
        mo_equal(d, o, b, t17, t17, t17, irreps=True)


class MOLEKEL(WfSpec):
    name = "molekel"
    fname = "w.mkl"
    target = "molekel"
    space = WF_AXES + [("atcharges", [False, True]), ("coords", ["small", "wide"]), ("mo2", ["as-axis", "fractional"])]

    def build(self, case, seed):
        import attrs

        wc = wf_case(case)
        if case["mo2"] == "fractional":
            wc["mo"] = "fractional"
        data, _ = wfn.build(wc, "molekel", seed)
        kw = {}
        if case["atcharges"]:
            kw["atcharges"] = {"mulliken": np.round(np.linspace(-0.6, 0.7, data.natom), 6)}
        if case["coords"] == "wide":
            # a far-away molecule: coordinates of thousands of angstrom (keeps inter-atomic geometry)
            kw["atcoords"] = data.atcoords + np.array([2500.0, -1250.0, 0.0]) * units.angstrom
        return (attrs.evolve(data, **kw) if kw else data), {}, {}

    def compare(self, o, b, case, d):
        d.exact("atnums", o.atnums, b.atnums)
        d.close("atcoords", o.atcoords, b.atcoords, abs_tol=0.6e-6 * units.angstrom)
        if case["atcharges"]:
            d.close("atcharges[mulliken]", o.atcharges["mulliken"], None if b.atcharges is None else b.atcharges.get("mulliken"), abs_tol=0.6e-6)
        elif b.atcharges is None:
            d.add("atcharges", "atcharges: dictionary attribute read back as None")
        basis_equal(d, o, b, dict(abs_tol=0.6e-10), dict(abs_tol=0.6e-10))
        mo_equal(d, o, b, dict(abs_tol=0.6e-12), dict(abs_tol=0.6e-12), dict(abs_tol=0.6e-7), irreps=True)


class WFN(WfSpec):
    name = "wfn"
    fname = "w.wfn"
    target = "wfn"
    space = [a for a in WF_AXES if a[0] != "shellset"] + [
        ("shellset", ["+d-cart", "sp", "+f-cart", "+g-cart"]),
        ("title", ["generated wavefunction", None, "T"]),
        ("energy", [True, False]),
        ("extra", ["none", "virial_ratio", "mo_spin"]),
    ]

    def build(self, case, seed):
        import attrs

        data, _ = wfn.build(wf_case(case), "wfn", seed)
        kw = {}
        if case["title"] != "generated wavefunction":
            kw["title"] = case["title"]
        if not case["energy"]:
            kw["energy"] = None
        if case["extra"] == "virial_ratio":
            kw["extra"] = {"virial_ratio": 2.00125}
        elif case["extra"] == "mo_spin":
            mo = data.mo
            spin = np.array([3] * mo.norb) if mo.kind == "restricted" else np.array([1] * mo.norba + [2] * mo.norbb)
            kw["extra"] = {"mo_spin": spin}
        return (attrs.evolve(data, **kw) if kw else data), {}, {}

    def compare(self, o, b, case, d):
        d.exact("atnums", o.atnums, b.atnums)
        d.close("atcoords", o.atcoords, b.atcoords, abs_tol=0.6e-8)
        if o.title is not None:
            d.exact("title", o.title, b.title)
        if o.energy is not None:
            d.close("energy", o.energy, b.energy, abs_tol=0.6e-12)
        if "virial_ratio" in o.extra:
            d.close("extra[virial_ratio]", o.extra["virial_ratio"], b.extra.get("virial_ratio"), abs_tol=0.6e-8)
        if "mo_spin" in o.extra:
            d.exact("extra[mo_spin]", o.extra["mo_spin"], b.extra.get("mo_spin"))
            if (o.mo.kind, o.mo.norba, o.mo.norbb) != (b.mo.kind, b.mo.norba, b.mo.norbb):
                d.add("mo", f"mo: ({o.mo.kind},{o.mo.norba},{o.mo.norbb}) -> ({b.mo.kind},{b.mo.norba},{b.mo.norbb})")
        d.close("mo.occs", o.mo.occs, b.mo.occs, abs_tol=0.6e-7)
        d.close("mo.energies", o.mo.energies, b.mo.energies, abs_tol=0.6e-6)


class WFX(WfSpec):
    name = "wfx"
    fname = "w.wfx"
    target = "wfx"
    space = [a for a in WF_AXES if a[0] != "shellset"] + [
        ("shellset", ["+d-cart", "sp", "+f-cart", "+g-cart"]),
        ("title", ["generated wavefunction", None, "T"]),
        ("energy", [True, False]),
        ("atgradient", [False, True]),
        ("lot", [None, "B3LYP"]),
        ("extra", ["none", "virial_ratio", "keywords", "num_core_electrons", "nuc_viral+full_virial_ratio"]),
        ("ecp", [False, True]),
    ]

    def build(self, case, seed):
        import attrs

        data, _ = wfn.build(wf_case(case), "wfx", seed)
        kw = {}
        if case["title"] != "generated wavefunction":
            kw["title"] = case["title"]
        if not case["energy"]:
            kw["energy"] = None
        if case["atgradient"]:
            kw["atgradient"] = np.arange(3.0 * data.natom).reshape(-1, 3) * 0.015625 - 0.5
        if case["lot"]:
            kw["lot"] = case["lot"]
        ex = {"virial_ratio": {"virial_ratio": 2.00125}, "keywords": {"keywords": "GTO"}, "num_core_electrons": {"num_core_electrons": 2},
              "nuc_viral+full_virial_ratio": {"nuc_viral": -0.125, "full_virial_ratio": 2.5}}.get(case["extra"])
        if ex:
            kw["extra"] = ex
        if case["ecp"]:
            cores = data.atnums.astype(float)
            cores[0] -= 2.0
            kw["atcorenums"] = cores
        return (attrs.evolve(data, **kw) if kw else data), {}, {}

    def compare(self, o, b, case, d):
        t = dict(rel_tol=1e-14, abs_tol=1e-300)
        d.exact("atnums", o.atnums, b.atnums)
        d.close("atcorenums", o.atcorenums, b.atcorenums, **t)
        d.close("atcoords", o.atcoords, b.atcoords, **t)
        if o.title is not None:
            d.exact("title", o.title, b.title)
        if o.energy is not None:
            d.close("energy", o.energy, b.energy, **t)
        if o.atgradient is not None:
            d.close("atgradient", o.atgradient, b.atgradient, **t)
        if o.lot is not None:
            d.exact("extra[model_name]", o.lot, b.extra.get("model_name"))
        for k, v in o.extra.items():
            if isinstance(v, str) or isinstance(v, int):
                d.exact(f"extra[{k}]", v, b.extra.get(k))
            else:
                d.close(f"extra[{k}]", v, b.extra.get(k), **t)
        if (o.mo.kind, o.mo.norba, o.mo.norbb) != (b.mo.kind, b.mo.norba, b.mo.norbb):
            d.add("mo", f"mo: ({o.mo.kind},{o.mo.norba},{o.mo.norbb}) -> ({b.mo.kind},{b.mo.norba},{b.mo.norbb})")
        d.close("mo.occs", o.mo.occs, b.mo.occs, **t)
        d.close("mo.energies", o.mo.energies, b.mo.energies, **t)


SPECS = {s.name: s for s in (FCHK(), MOLDEN(), MOLEKEL(), WFN(), WFX())}


class JSON(Spec):
    """QCSchema JSON (selected with fmt='json_qcschema'; no file-name pattern)."""

    name = "json_qcschema"
    fname = "m.json"
    fmt = "json_qcschema"
    space = [
        ("schema", ["qcschema_molecule", "qcschema_input", "qcschema_output"]),
        ("natom", [3, 1, 10]),
        ("charge", [0, 1, -1.0, 0.5]),
        ("spinpol", [0, 1, 2]),
        ("title", [None, "water molecule"]),
        ("atmasses", [False, True]),
        ("bonds", ["none", "few", "chain"]),
        ("g_rot", [None, 2]),
        ("ghost", [False, True]),
        ("molecule_extra", ["empty", "comment+labels", "identifiers", "fix_com+orientation", "extras-nested", "fragments", "id+validated", "no-molecule-dict"]),
        ("provenance", ["absent", "dict", "list"]),
        ("input_extra", ["minimal", "keywords", "protocols", "extras+id", "no-basis-name"]),
        ("driver", ["energy", "gradient", "hessian", "properties"]),
        ("output_extra", ["minimal", "stdout", "stderr", "stdout+stderr", "error", "energy-attribute"]),
    ]

    def build(self, case, seed):
        from iodata import IOData

        n = case["natom"]
        z = fmtspecs.elements("OHH", n, seed)
        xyz = fmtspecs.coords_angstrom("small", n, seed) * units.angstrom
        kw = dict(atnums=z, atcoords=xyz, charge=case["charge"], spinpol=case["spinpol"])
        if case["title"]:
            kw["title"] = case["title"]
        if case["atmasses"]:
            kw["atmasses"] = np.array([15.999, 1.008, 2.014][: min(n, 3)] + [1.008] * max(0, n - 3)) * units.amu
        if case["bonds"] != "none" and n > 1:
            kw["bonds"] = fmtspecs.bonds_menu(case["bonds"], n, [1, 2])
        if case["g_rot"]:
            kw["g_rot"] = case["g_rot"]
        if case["ghost"] and n > 1:
            cores = z.astype(float)
            cores[-1] = 0.0
            kw["atcorenums"] = cores
        mol = {}
        me = case["molecule_extra"]
        if me == "comment+labels":
            mol = {"comment": "a comment", "atom_labels": [f"L{i}" for i in range(n)]}
        elif me == "identifiers":
            mol = {"identifiers": {"molecular_formula": "H2O", "smiles": "O"}}
        elif me == "fix_com+orientation":
            mol = {"fix_com": True, "fix_orientation": False}
        elif me == "extras-nested":
            mol = {"extras": {"a": {"b": [1, 2, {"c": 3.5}]}, "tag": "x"}}
        elif me == "fragments" and n >= 3:
            mol = {"fragments": {"indices": [np.array([0, 1]), np.array(list(range(2, n)))], "charges": np.array([0.0, float(case["charge"])]), "multiplicities": np.array([1, case["spinpol"] + 1])}}
        elif me == "id+validated":
            mol = {"id": "mol-1", "qcel_validated": True}
        prov = {"creator": "verif", "version": "1.0", "routine": "gen"}
        if case["provenance"] == "dict":
            mol["provenance"] = dict(prov)
        elif case["provenance"] == "list":
            mol["provenance"] = [dict(prov), {"creator": "other", "version": "2", "routine": "r"}]
        extra = {"schema_name": case["schema"]}
        if me != "no-molecule-dict":
            extra["molecule"] = mol
        if case["schema"] in ("qcschema_input", "qcschema_output"):
            inp = {"driver": case["driver"], "model": {}}
            ie = case["input_extra"]
            if ie == "keywords":
                inp["keywords"] = {"scf_type": "df", "maxiter": 50, "nested": {"x": [1, 2]}}
            elif ie == "protocols":
                inp["protocols"] = {"keep_wavefunction": "all", "keep_stdout": True}
            elif ie == "extras+id":
                inp["extras"] = {"note": "n"}
                inp["id"] = "inp-7"
            if case["provenance"] == "dict":
                inp["provenance"] = dict(prov)
            elif case["provenance"] == "list":
                inp["provenance"] = [dict(prov)]
            extra["input"] = inp
            kw["lot"] = "B3LYP"
            if ie != "no-basis-name":
                kw["obasis_name"] = "cc-pVDZ"
        if case["schema"] == "qcschema_output":
            out = {"properties": {"scf_total_energy": -76.0125, "calcinfo_nbasis": 24}, "return_result": -76.0125 if case["driver"] == "energy" else [0.125, -0.25, 0.5]}
            oe = case["output_extra"]
            if "stdout" in oe:
                out["stdout"] = "standard output text"
            if "stderr" in oe:
                out["stderr"] = "standard error text"
            if oe == "error":
                out["error"] = {"error_type": "convergence_error", "error_message": "did not converge"}
            if oe == "energy-attribute":
                kw["energy"] = -76.5
            extra["output"] = out
        kw["extra"] = extra
        return IOData(**kw), {}, {}

    def refusal_allowed(self, case):
        return False

    def compare(self, o, b, case, d):
        d.exact("atnums", o.atnums, b.atnums)
        d.close("atcoords", o.atcoords, b.atcoords, abs_tol=0.0)
        d.close("atcorenums", o.atcorenums, b.atcorenums, abs_tol=0.0)
        d.close("charge", o.charge, b.charge, abs_tol=1e-12)
        d.close("spinpol", o.spinpol, b.spinpol, abs_tol=0.0)
        if o.title:
            d.exact("title", o.title, b.title)
        if o.atmasses is not None:
            d.close("atmasses", o.atmasses, b.atmasses, rel_tol=4.5e-16)  # repr() digits, one division and one multiplication by amu
        if o.bonds is not None:
            d.exact("bonds", o.bonds, [] if b.bonds is None else b.bonds)
        if o.g_rot:
            d.exact("g_rot", o.g_rot, b.g_rot)
        bm = b.extra.get("molecule", {})
        for k, v in o.extra.get("molecule", {}).items():
            if k == "provenance":
                continue
            if k == "fragments":
                got = bm.get("fragments", {})
                d.exact("extra[molecule][fragments][indices]", repr([x.tolist() for x in v["indices"]]), repr([np.asarray(x).tolist() for x in got.get("indices", [])]))
                d.exact("extra[molecule][fragments][charges]", v["charges"], got.get("charges", []))
                d.exact("extra[molecule][fragments][multiplicities]", v["multiplicities"], got.get("multiplicities", []))
            else:
                d.exact(f"extra[molecule][{k}]", repr(v), repr(bm.get(k)))
        if case["schema"] != "qcschema_molecule":
            bi = b.extra.get("input", {})
            d.exact("extra[input][driver]", o.extra["input"]["driver"], bi.get("driver"))
            for k in ("keywords", "protocols", "extras", "id"):
                if k in o.extra["input"]:
                    d.exact(f"extra[input][{k}]", repr(o.extra["input"][k]), repr(bi.get(k)))
            d.exact("lot", o.lot, b.lot)
            if o.obasis_name is not None:
                d.exact("obasis_name", o.obasis_name, b.obasis_name)
        if case["schema"] == "qcschema_output":
            bo = b.extra.get("output", {})
            for k in ("stdout", "stderr", "error", "return_result"):
                if k in o.extra["output"]:
                    d.exact(f"extra[output][{k}]", repr(o.extra["output"][k]), repr(bo.get(k)))
            if o.energy is not None:
                d.close("energy", o.energy, b.energy, abs_tol=0.0)

    @staticmethod
    def cycle_filter(snap):
        """Documented exception of C15: the provenance trail grows by design; drop it from the comparison."""
        def strip(x):
            if isinstance(x, tuple) and x and x[0] == "d":
                return ("d", tuple((k, strip(v)) for k, v in x[1] if k != "'provenance'"))
            if isinstance(x, tuple) and x and x[0] in ("l", "t"):
                return (x[0], tuple(strip(v) for v in x[1]))
            if isinstance(x, tuple) and x and x[0] == "o":
                return ("o", x[1], tuple((k, strip(v)) for k, v in x[2]))
            return x

        return strip(snap)

    @staticmethod
    def file_filter(data: bytes):
        import json

        def strip(x):
            if isinstance(x, dict):
                return {k: strip(v) for k, v in x.items() if k != "provenance"}
            if isinstance(x, list):
                return [strip(v) for v in x]
            return x

        return json.dumps(strip(json.loads(data)), sort_keys=False).encode()


SPECS["json_qcschema"] = JSON()
