"""C17 - format selection is deterministic, declared capabilities are truthful (full products)."""

from __future__ import annotations

import itertools
import json
import os
import subprocess
import sys

import numpy as np

from mc import audit
from mc.core import CORPUS, REPO, VERIF
from ref import select as refsel

LEVEL = "exploration"
OPS = ("load_one", "load_many", "dump_one", "dump_many")


def registry():
    from iodata.api import FORMAT_MODULES

    return {name: (list(m.PATTERNS), {op for op in OPS if hasattr(m, op)}) for name, m in FORMAT_MODULES.items()}


def file_names(reg):
    names = set()
    stems = ["x", "a.b", "", "X Y", "water_hf"]
    for name, (pats, _) in reg.items():
        for p in pats:
            for s in stems:
                n = p.replace("*", s)
                names.add(n)
                names.add(n.upper())
                names.add(n.lower())
                names.add("d/" + n)
                names.add(f"{p.replace('*', 'dir')}/plain")  # directory carrying pattern text, base name without
                names.add(n + ".bak")
                names.add("pre" + n)
    names |= {"x.cp2k.out", "FCIDUMP.molden", "POSCAR.xyz", "CHGCAR.cube", "x.molden.input", "x.xyz.pdb", "x.pdb.xyz", "LOCPOT.fchk", "x.wfn.wfx",
              "noextension", "x.", ".xyz", "x.unknown", "x.json", "x.XYZ", "x.Fchk", "POSCAR", "poscar", "AECCAR0", "x.out.gz", "x.log", "xyz", "dir.xyz/x.sdf",
              "x.mol2.mkl", "x.fch", "x.cub", "x.gjf", "x.dat", "x.qchemlog", "FCIDUMP", "a.FCIDUMP.b", "x.fcidump", "x.extxyz", "x.gro", "x.crd", "x.mwfn", "x.com"}
    return sorted(names)


def api_call(op, path, fmt):
    """Run the public API function for `op` on `path` (file exists for loads)."""
    import iodata

    if op == "load_one":
        return iodata.load_one(path, fmt=fmt)
    if op == "load_many":
        return list(iodata.load_many(path, fmt=fmt))
    data = iodata.IOData()
    if op == "dump_one":
        return iodata.dump_one(data, path, fmt=fmt)
    return iodata.dump_many([data], path, fmt=fmt)


class Stubs:
    """Replace every format module's four functions by recorders (harness-side, restored afterwards)."""

    def __init__(self):
        self.calls = []
        self.saved = []

    def __enter__(self):
        from iodata.api import FORMAT_MODULES

        for name, m in FORMAT_MODULES.items():
            for op in OPS:
                if hasattr(m, op):
                    orig = getattr(m, op)
                    stub = self.make(name, op)
                    stub.required = []
                    stub.fmt = getattr(orig, "fmt", name)
                    self.saved.append((m, op, orig))
                    setattr(m, op, stub)
            if hasattr(m, "prepare_dump"):
                self.saved.append((m, "prepare_dump", m.prepare_dump))
                m.prepare_dump = lambda data, allow_changes, filename: data
        return self

    def make(self, name, op):
        calls = self.calls

        def stub(first, *a, **k):
            calls.append((name, op))
            if op == "load_one":
                return {}
            if op == "load_many":
                return iter([{}])
            if op == "dump_many":
                list(first if False else a[0])  # consume the iterator of frames
            return None

        return stub

    def __exit__(self, *exc):
        for m, op, orig in self.saved:
            setattr(m, op, orig)


def selection(ctx):
    from iodata.api import FORMAT_MODULES, _select_format_module
    from iodata.utils import FileFormatError

    reg = registry()
    # the registry lists exactly the format modules on disk that declare PATTERNS
    on_disk = sorted(f[:-3] for f in os.listdir(REPO / "iodata" / "formats") if f.endswith(".py") and f != "__init__.py" and "PATTERNS" in (REPO / "iodata" / "formats" / f).read_text())
    ctx.count()
    if sorted(reg) != on_disk:
        ctx.violation("registry", "registry:modules-missing-or-extra", {"registry": sorted(reg), "disk": on_disk}, "FORMAT_MODULES differs from the modules on disk")
    ctx.cov["format_modules"] = len(reg)
    names = file_names(reg)
    fmts = [None, *reg, "unknown", "", "XYZ"]
    tmp = ctx.scratch()
    table = {}
    nstub = 0
    for fn in names:
        for op in OPS:
            for fmt in fmts:
                ctx.count()
                want, cands = refsel.decide(fn, op, fmt, reg)
                case = {"filename": fn, "operation": op, "fmt": fmt}
                ctx.nontrivial((fn, op, fmt))
                outs = []
                for variant in (fn, "some/other/dir/" + fn, fn):  # repeated + directory prefix
                    try:
                        m = _select_format_module(variant, op, fmt)
                        outs.append(("ok", m.__name__.rsplit(".", 1)[-1], m is FORMAT_MODULES.get(m.__name__.rsplit(".", 1)[-1])))
                    except FileFormatError as exc:
                        outs.append(("error", variant in str(exc), None))
                    except Exception as exc:  # noqa: BLE001
                        outs.append(("raise", type(exc).__name__, None))
                got = outs[0]
                if fmt is None:
                    table[f"{fn}|{op}"] = got[1] if got[0] == "ok" else "ERROR"
                ok = all(o[:2] == got[:2] or (o[0] == got[0] == "error") for o in outs)
                if not ok:
                    ctx.violation("deterministic", "select:depends-on-directory-or-repetition", case, f"{outs}")
                if got[0] == "raise":
                    ctx.violation("select", f"select:raises-{got[1]}", case, f"{case}: {got[1]}")
                    continue
                if want == "error":
                    ctx.outcome("select", "FileFormatError" if got[0] == "error" else "ACCEPTED")
                    if got[0] != "error":
                        ctx.violation("select", "select:should-be-FileFormatError:" + ("explicit" if fmt is not None else "by-name"), case, f"{case} selected {got[1]}")
                    elif not got[1]:
                        ctx.violation("select", "select:error-does-not-name-file", case, "FileFormatError message lacks the file name")
                else:
                    good = got[0] == "ok" and got[1] in cands and got[2]
                    ctx.outcome("select", ("explicit" if fmt is not None else ("unique-match" if len(cands) == 1 else "one-of-several-matches")) if good else "WRONG")
                    if not good:
                        ctx.violation("select", "select:wrong-module:" + ("explicit" if fmt is not None else "by-name"), case, f"{case}: got {got}, acceptable {sorted(cands)}")
    # history independence: an ambiguous name gets the same module whatever was guessed just before (each candidate primed in turn)
    unamb, ambiguous = {}, []
    for fn in names:
        for op in OPS:
            want, cands = refsel.decide(fn, op, None, reg)
            if want != "error" and len(cands) == 1:
                unamb.setdefault((next(iter(cands)), op), fn)
            elif want != "error" and len(cands) > 1:
                ambiguous.append((fn, op, sorted(cands)))
    for fn, op, cands in ambiguous:
        for prime in cands:
            pname = unamb.get((prime, op))
            if pname is None:
                continue
            ctx.count()
            ctx.nontrivial(("primed", fn, op, prime))
            try:
                _select_format_module(pname, op, None)
                got = _select_format_module(fn, op, None).__name__.rsplit(".", 1)[-1]
            except Exception as exc:  # noqa: BLE001
                got = f"{type(exc).__name__}"
            ok = got == table.get(f"{fn}|{op}")
            ctx.outcome("history", "independent" if ok else "DEPENDS-ON-HISTORY")
            if not ok:
                ctx.violation("deterministic", "select:depends-on-previous-call", {"filename": fn, "operation": op, "previous": pname},
                              f"{fn} ({op}) selects {table.get(f'{fn}|{op}')} when asked first, {got} right after {pname} was selected")
    ctx.sample({"filename": "x.cp2k.out", "operation": "load_one", "fmt": None, "chosen": table.get("x.cp2k.out|load_one")})
    ctx.cov["file_names"] = len(names)
    # ---- the same through the public API, with recording stubs and a file-system audit
    sub = [n for n in names if "/" not in n][:: (1 if ctx.thorough else 3)]
    with Stubs() as st:
        for fn in sub:
            for op in OPS:
                for fmt in (None, "xyz", "fchk", "unknown") if not ctx.thorough else fmts:
                    ctx.count()
                    nstub += 1
                    path = str(tmp / (fn.replace(" ", "_") or "empty"))
                    if fn != fn.replace(" ", "_") or not fn:
                        continue
                    want, cands = refsel.decide(fn, op, fmt, reg)
                    case = {"filename": fn, "operation": op, "fmt": fmt, "via": "public API"}
                    if os.path.exists(path):
                        os.remove(path)
                    if op.startswith("load") and want == "ok":
                        with open(path, "w") as fh:
                            fh.write("\n")
                    st.calls.clear()
                    with audit.Recorder() as rec:
                        try:
                            api_call(op, path, fmt)
                            res = "ok"
                        except Exception as exc:  # noqa: BLE001
                            res = type(exc).__name__
                    if want == "error":
                        touched = rec.touched(path)
                        ok = res == "FileFormatError" and not touched and not os.path.exists(path) and not st.calls
                        ctx.outcome("api-select", "FileFormatError-untouched" if ok else "WRONG")
                        if not ok:
                            ctx.violation("api-select", "api:unselectable:" + ("file-system-touched" if touched or os.path.exists(path) else f"outcome-{res}"), case, f"{case}: outcome {res}, events {touched}, calls {st.calls}")
                    else:
                        ok = res == "ok" and len(st.calls) == 1 and st.calls[0][1] == op and st.calls[0][0] in cands
                        ctx.outcome("api-select", "dispatched" if ok else "WRONG")
                        if not ok:
                            ctx.violation("api-select", "api:wrong-dispatch", case, f"{case}: outcome {res}, calls {st.calls}, acceptable {sorted(cands)}")
    ctx.cov["public_api_dispatch_checks"] = nstub
    return table, names


def hashseed_determinism(ctx, names):
    """Selection by name in fresh interpreters with different PYTHONHASHSEED and a different order of calls
    (the second interpreter walks the names backwards and asks for the operations in reverse order: the
    format chosen for (name, operation) must not depend on which selections were made before)."""
    code = (
        "import json,sys,os\n"
        "from iodata.api import _select_format_module\n"
        "from iodata.utils import FileFormatError\n"
        "names=json.load(sys.stdin)\nout={}\n"
        "ops=('load_one','load_many','dump_one','dump_many')\n"
        "if os.environ.get('VERIF_REVERSE'): names=names[::-1]; ops=ops[::-1]\n"
        "for n in names:\n"
        "  for op in ops:\n"
        "    try: out[n+'|'+op]=_select_format_module(n,op,None).__name__.rsplit('.',1)[-1]\n"
        "    except FileFormatError: out[n+'|'+op]='ERROR'\n"
        "print(json.dumps(out,sort_keys=True))\n"
    )
    results = []
    for hs, rev in (("1", ""), ("12345", "1")):
        env = dict(os.environ, PYTHONHASHSEED=hs, VERIF_REVERSE=rev)
        r = subprocess.run([sys.executable, "-c", code], input=json.dumps(names), capture_output=True, text=True, env=env, check=False)
        if r.returncode != 0:
            raise SystemExit("HARNESS-ERROR: subprocess failed: " + r.stderr[-500:])
        results.append(json.loads(r.stdout))
    return results


def declarations(ctx):
    import attrs
    from iodata import IOData
    from iodata.api import FORMAT_MODULES

    valid = {a.name.lstrip("_") for a in attrs.fields(IOData)} | {n for n in dir(IOData) if isinstance(getattr(IOData, n, None), property)}
    for name, m in FORMAT_MODULES.items():
        for op in OPS:
            if not hasattr(m, op):
                continue
            f = getattr(m, op)
            lists = {"guaranteed": f.guaranteed, "ifpresent": f.ifpresent} if op.startswith("load") else {"required": f.required, "optional": f.optional}
            for lname, attrs_ in lists.items():
                for a in attrs_:
                    ctx.count()
                    ctx.nontrivial(("decl", name, op, lname, a))
                    ok = a in valid
                    ctx.outcome("declared-names", "exists" if ok else "UNKNOWN")
                    if not ok:
                        ctx.violation("declared-names", f"declared:{name}.{op}.{lname}:{a}", {"module": name, "operation": op, "list": lname, "attribute": a}, f"{name}.{op} declares {lname} attribute {a!r}, which IOData does not have")
            both = set(list(lists.values())[0]) & set(list(lists.values())[1])
            if both:
                ctx.violation("declared-names", f"declared:{name}.{op}:listed-twice", {"module": name, "operation": op, "attributes": sorted(both)}, f"{sorted(both)} declared in both lists")


def guaranteed_worker(chunk, seed, tier):
    import warnings

    from iodata import load_many, load_one
    from iodata.api import FORMAT_MODULES, _select_format_module
    from mc.core import Part

    part = Part(seed, tier)
    for fn, fmt in chunk:
        path = str(CORPUS / fn)
        for op in ("load_one", "load_many"):
            try:
                m = _select_format_module(path, op, fmt)
            except Exception:  # noqa: BLE001
                continue
            part.count()
            with warnings.catch_warnings():
                warnings.simplefilter("ignore")
                try:
                    objs = [load_one(path, fmt=fmt)] if op == "load_one" else list(load_many(path, fmt=fmt))
                except Exception:  # noqa: BLE001
                    part.outcome("guaranteed", "load-failed(not judged)")
                    continue
            mname = m.__name__.rsplit(".", 1)[-1]
            declared = getattr(m, op).guaranteed
            part.nontrivial(("guaranteed", fn, op))
            for iframe, obj in enumerate(objs[:50]):
                for a in declared:
                    try:
                        v = getattr(obj, a)
                    except AttributeError:
                        continue  # judged by the declared-names clause
                    ok = v is not None
                    part.outcome("guaranteed", "set" if ok else "MISSING")
                    if not ok:
                        part.violation("guaranteed", f"guaranteed:{mname}.{op}:{a}", {"file": fn, "module": mname, "operation": op, "attribute": a, "frame": iframe},
                                       f"{fn}: {mname}.{op} guarantees {a!r} but the loaded object has None")
            if len(part.samples) < 1:
                part.sample({"file": fn, "module": mname, "operation": op, "guaranteed": declared})
    return part.result()


def generated_worker(chunk, seed, tier):
    """Guaranteed attributes on files produced by the independent writers of C03 (all cases with <= 1 deviation)."""
    import shutil
    import warnings

    from iodata import load_many, load_one
    from iodata.api import FORMAT_MODULES
    from mc.core import Part, make_scratch
    from props import c03

    part = Part(seed, tier)
    tmp = make_scratch()
    fmts = {f.name: f for f in c03.FORMATS}
    try:
        for name, case in chunk:
            f = fmts[name]
            fname, text, _exp, kw = f.make(case, seed)
            path = str(tmp / fname)
            with open(path, "w") as fh:
                fh.write(text)
            for op in ("load_one", "load_many"):
                m = FORMAT_MODULES.get(name)
                if m is None:  # a module missing from the registry is reported by the registry clause
                    break
                if not hasattr(m, op):
                    continue
                part.count()
                with warnings.catch_warnings():
                    warnings.simplefilter("ignore")
                    try:
                        objs = [load_one(path, **kw)] if op == "load_one" else list(load_many(path, **kw))
                    except Exception:  # noqa: BLE001
                        continue
                part.nontrivial(("generated", name, op, repr(sorted(case.items(), key=lambda kv: kv[0]))))
                for obj in objs[:3]:
                    for a in getattr(m, op).guaranteed:
                        v = getattr(obj, a, "missing-attribute")
                        ok = v is not None
                        part.outcome("guaranteed-generated", "set" if ok else "MISSING")
                        if not ok:
                            from mc import dbe

                            part.violation("guaranteed", f"guaranteed:{name}.{op}:{a}", {"format": name, "operation": op, "attribute": a, "case": dbe.dev_str(f.space, case)},
                                           f"{name}.{op} guarantees {a!r} but a well-formed generated file [{dbe.dev_str(f.space, case)}] loads with {a} = None")
    finally:
        shutil.rmtree(tmp, ignore_errors=True)
    return part.result()


def corpus_files():
    from iodata.api import _select_format_module

    out = []
    for fn in sorted(os.listdir(CORPUS)):
        if fn.endswith((".npy", ".py", ".txt")):
            continue
        if fn.endswith(".json"):
            out.append((fn, "json_qcschema"))
            continue
        try:
            _select_format_module(fn, "load_one", None)
        except Exception:  # noqa: BLE001
            continue
        out.append((fn, None))
    return out


def run(ctx):
    from mc.pool import pmap

    table, names = selection(ctx)
    res = hashseed_determinism(ctx, names)
    ctx.count(2 * len(names) * 4)
    for k in table:
        if not (table[k] == res[0].get(k) == res[1].get(k)):
            ctx.violation("deterministic", "select:differs-between-interpreters", {"key": k, "in-process": table[k], "hashseed1": res[0].get(k), "hashseed12345": res[1].get(k)}, f"{k}")
    ctx.outcome("deterministic", "identical-in-3-interpreters", len(table))
    declarations(ctx)
    files = corpus_files()
    pmap(ctx, guaranteed_worker, files, chunk=2)
    from mc import dbe
    from props import c03

    gen = [(f.name, case) for f in c03.FORMATS for case in dbe.cases(f.space, 1) if int(case.get("natom", 0) or 0) <= 1000]
    pmap(ctx, generated_worker, gen, chunk=8)
    ctx.cov["generated_files_loaded"] = len(gen)
    ctx.cov["corpus_files_loaded"] = len(files)
    ctx.exhaustive = True
    ctx.rule = (
        "full product: every file name built from every pattern of every format module (stem variants, upper/lower case, suffix/prefix added, directory prefix, directory carrying the pattern) plus 45 hand-picked "
        "ambiguous names x 4 operations x explicit format in {None, each module, 'unknown', '', 'XYZ'}, judged by an independent matcher; the same through the public API with recording stubs and a "
        "file-system audit hook; selection table compared across 3 interpreters (PYTHONHASHSEED 0/1/12345, the last one issuing the calls in reverse order); every declared attribute name against the IOData attribute set; every guaranteed "
        "attribute on every successfully loaded corpus file and on every file produced by the independent writers of C03 with <= 1 deviation (load_one and load_many). Distinct = (name, operation, format)."
    )
    ctx.assumptions += ["patterns and supported operations are read from the modules (they are the declarations under test); matching and decision logic are re-implemented",
                        "an empty dict counts as 'set' for dictionary-valued attributes"]


def replay(ctx, payload):
    run(ctx)
    ctx.violations = [v for v in ctx.violations if v.sig == payload["signature"]]
