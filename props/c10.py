"""C10 - convention conversion is an exact signed permutation (full products + Cayley-graph BFS)."""

from __future__ import annotations

import itertools

import numpy as np

LEVEL = "exploration"


# --- independent reference -----------------------------------------------------------------------

def parse(label):
    sign = 1
    while label.startswith("-"):
        sign = -sign
        label = label[1:]
    return sign, label


def ref_map(conv1, conv2):
    """(perm, signs) such that v2 = v1[perm]*signs, built directly from the label strings."""
    p1 = [parse(x) for x in conv1]
    p2 = [parse(x) for x in conv2]
    pos = {lab: (i, s) for i, (s, lab) in enumerate(p1)}
    perm, signs = [], []
    for s2, lab in p2:
        i, s1 = pos[lab]
        perm.append(i)
        signs.append(s1 * s2)
    return perm, signs


def label_set(angmom, kind):
    """Independent statement of which functions a shell type has."""
    if kind == "c":
        out = set()
        for a in range(angmom + 1):
            for b in range(angmom + 1 - a):
                out.add("x" * a + "y" * b + "z" * (angmom - a - b))
        if angmom == 0:
            out = {"1"}
        return out
    out = {"c0"}
    for m in range(1, angmom + 1):
        out |= {f"c{m}", f"s{m}"}
    return out


def tables():
    import attrs
    from iodata.basis import MolecularBasis, Shell
    from iodata.convert import CCA_CONVENTIONS, HORTON2_CONVENTIONS
    from iodata.formats import cp2klog, fchk, molden, molekel, mwfn, wfn, wfx

    dummy = MolecularBasis([Shell(0, [0], ["c"], [1.0], [[1.0]])], molden.CONVENTIONS, "L2")
    orca = molden._fix_obasis_orca(dummy).conventions
    t = {
        "fchk": fchk.CONVENTIONS,
        "molden": molden.CONVENTIONS,
        "molekel": molekel.CONVENTIONS,
        "wfn": wfn.CONVENTIONS,
        "wfx": getattr(wfx, "CONVENTIONS", wfn.CONVENTIONS),
        "mwfn": mwfn.CONVENTIONS,
        "cp2k": cp2klog.CONVENTIONS,
        "orca-fix": orca,
        "horton2": {k: v for k, v in HORTON2_CONVENTIONS.items() if k[0] <= 9},
        "cca": {k: v for k, v in CCA_CONVENTIONS.items() if k[0] <= 9},
    }
    return t


def check_shell_pair(ctx, conv1, conv2, tag):
    """Compare _convert_convention_shell with the reference in both directions + inverse laws."""
    from iodata.convert import _convert_convention_shell

    ctx.count()
    n = len(conv1)
    v1 = np.array([float(3 + 2 * i) + 0.25 * i * i for i in range(n)])
    case = {"pair": tag, "conv1": list(conv1), "conv2": list(conv2)}
    try:
        rperm, rsigns = ref_map(conv1, conv2)
        if len(conv1) != len(conv2) or sorted(rperm) != list(range(n)):
            raise KeyError("different function sets")
    except KeyError:
        # the two entries do not name the same functions (the table-entry clause reports the faulty table): the conversion must be refused
        from iodata.convert import _convert_convention_shell as _ccs

        try:
            res = _ccs(list(conv1), list(conv2))
        except Exception:  # noqa: BLE001
            ctx.outcome("shell-map", "mismatching-entries-rejected")
            return False
        ctx.violation("shell-map", "shell:mismatching-entries-mapped", case, f"{tag}: entries naming different function sets were mapped to {res}")
        return False
    want = v1[rperm] * rsigns
    try:
        perm, signs = _convert_convention_shell(list(conv1), list(conv2))
        bperm, bsigns = _convert_convention_shell(list(conv1), list(conv2), True)
    except Exception as exc:  # noqa: BLE001
        ctx.violation("shell-map", f"shell:raises-{type(exc).__name__}", case, f"{tag}: {exc!r}")
        return False
    got = v1[np.array(perm, dtype=int)] * np.array(signs) if n else v1
    ok = list(perm) == rperm and list(signs) == rsigns and (got == want).all()
    ok_signs = all(s in (1, -1) for s in signs) and sorted(perm) == list(range(n))
    back = got[np.array(bperm, dtype=int)] * np.array(bsigns) if n else got
    ok_back = (back == v1).all()
    ctx.outcome("shell-map", "identity-perm" if ok and rperm == list(range(n)) and all(s == 1 for s in rsigns) else ("signed-perm" if ok else "WRONG"))
    if not ok or not ok_signs:
        ctx.violation("shell-map", "shell:wrong-map", case, f"{tag}: got perm={list(perm)} signs={list(signs)}, reference perm={rperm} signs={rsigns}")
    if not ok_back:
        ctx.violation("reverse", "shell:reverse-not-inverse", case, f"{tag}: reverse=True does not undo the conversion")
    return ok and ok_back


def part_one_tables(ctx):
    t = tables()
    names = list(t)
    # built-in entries list each function exactly once
    for name in names:
        for key, labels in t[name].items():
            ctx.count()
            stripped = [parse(x)[1] for x in labels]
            ok = len(stripped) == len(set(stripped)) and set(stripped) == label_set(*key)
            ctx.outcome("table-entry", "complete" if ok else "WRONG")
            ctx.nontrivial(("entry", name, key, tuple(labels)))
            if not ok:
                ctx.violation("table-entry", f"table:{name}:{key}", {"table": name, "key": key, "labels": list(labels)},
                              f"{name}{key} = {labels} is not a signed ordering of {sorted(label_set(*key))}")
    # every ordered pair of tables on every shared key
    for a, b in itertools.product(names, repeat=2):
        for key in t[a]:
            if key in t[b]:
                ctx.nontrivial(("pair", a, b, key))
                check_shell_pair(ctx, t[a][key], t[b][key], f"{a}->{b}{key}")
    ctx.sample({"tables": names, "example_pair": "fchk->molden(3,'c')", "conv1": t["fchk"][(3, "c")], "conv2": t["molden"][(3, "c")]})
    return t


def neighbours(conv):
    conv = list(conv)
    for i in range(len(conv) - 1):
        c = list(conv)
        c[i], c[i + 1] = c[i + 1], c[i]
        yield tuple(c)
    for i in range(len(conv)):
        c = list(conv)
        c[i] = c[i][1:] if c[i].startswith("-") else "-" + c[i]
        yield tuple(c)


def cayley(start, depth):
    """All conventions within `depth` generator steps of `start` (BFS), None = whole group."""
    seen = {tuple(start)}
    frontier = [tuple(start)]
    d = 0
    while frontier and (depth is None or d < depth):
        nxt = []
        for c in frontier:
            for nb in neighbours(c):
                if nb not in seen:
                    seen.add(nb)
                    nxt.append(nb)
        frontier = nxt
        d += 1
    return sorted(seen)


def compose_check(ctx, a, b, c, tag):
    """A->B->C equals A->C on a test vector (real code for all three conversions)."""
    from iodata.convert import _convert_convention_shell

    ctx.count()
    n = len(a)
    v = np.array([1.5 + i * 1.25 for i in range(n)])
    try:
        p1, s1 = _convert_convention_shell(list(a), list(b))
        p2, s2 = _convert_convention_shell(list(b), list(c))
        p3, s3 = _convert_convention_shell(list(a), list(c))
    except Exception as exc:  # noqa: BLE001
        ctx.violation("compose", f"compose:raises-{type(exc).__name__}", {"a": a, "b": b, "c": c}, repr(exc))
        return
    vb = v[np.array(p1, dtype=int)] * np.array(s1)
    vc = vb[np.array(p2, dtype=int)] * np.array(s2)
    direct = v[np.array(p3, dtype=int)] * np.array(s3)
    rp, rs = ref_map(a, c)
    ok = (vc == direct).all() and (direct == v[rp] * rs).all()
    ctx.outcome("compose", "A-B-C==A-C" if ok else "WRONG")
    if not ok:
        ctx.violation("compose", "compose:A-B-C!=A-C", {"a": a, "b": b, "c": c, "tag": tag}, f"{tag}: via B {vc.tolist()} direct {direct.tolist()}")


def part_two_cayley(ctx, t):
    depth = 3 if ctx.thorough else 2
    # complete hyperoctahedral group for (1,c): 48 conventions, all ordered pairs, all triples through identity
    g1 = cayley(("x", "y", "z"), None)
    assert len(g1) == 48
    for a, b in itertools.product(g1, repeat=2):
        ctx.nontrivial(("g1", a, b))
        check_shell_pair(ctx, a, b, "B3-group(1,c)")
    for a, b in itertools.product(g1, repeat=2):
        compose_check(ctx, a, b, g1[(g1.index(a) * 7 + g1.index(b) * 3 + 5) % 48], "B3-group")
    ctx.cov["group_1c_elements"] = len(g1)
    # (2,p): whole group 5!*2^5 = 3840
    g2 = cayley(t["horton2"][(2, "p")], None)
    assert len(g2) == 3840
    ident = tuple(t["horton2"][(2, "p")])
    for x in g2:
        ctx.nontrivial(("g2", x))
        check_shell_pair(ctx, ident, x, "B5-group(2,p) id->X")
        if ctx.thorough:
            for y in neighbours(x):
                compose_check(ctx, ident, x, y, "B5-group id->X->Y")
    ctx.cov["group_2p_elements"] = len(g2)
    # neighbourhoods of every built-in table entry for l <= 4
    n_nb = 0
    seen_starts = set()
    for name, table in t.items():
        for key, labels in table.items():
            if key[0] > 4 or key[0] == 0 or tuple(labels) in seen_starts:
                continue
            seen_starts.add(tuple(labels))
            ball = cayley(labels, depth if len(labels) <= 10 else depth - 1)
            n_nb += len(ball)
            for x in ball:
                ctx.nontrivial(("ball", x))
                check_shell_pair(ctx, tuple(labels), x, f"{name}{key}->ball")
                check_shell_pair(ctx, x, tuple(labels), f"ball->{name}{key}")
            # triples on the first generator ring
            ring = cayley(labels, 1)
            for x, y in itertools.product(ring, repeat=2):
                compose_check(ctx, tuple(labels), x, y, f"{name}{key} ring")
    ctx.cov["cayley_ball_conventions"] = n_nb
    ctx.cov["cayley_depth"] = depth


def part_three_corruptions(ctx, t):
    from iodata.convert import _convert_convention_shell

    done = set()
    for name, table in t.items():
        for key, labels in table.items():
            labels = list(labels)
            if tuple(labels) in done or len(labels) < 2:
                continue
            done.add(tuple(labels))
            foreign = "q7"
            wrong_l = "x" * (key[0] + 1) if key[1] == "c" else f"c{key[0] + 1}"
            for i in range(len(labels)):
                variants = {
                    "delete": labels[:i] + labels[i + 1 :],
                    "duplicate": labels[:i] + [labels[(i + 1) % len(labels)]] + labels[i + 1 :],
                    "dup-signed": labels[:i] + ["-" + parse(labels[(i + 1) % len(labels)])[1]] + labels[i + 1 :],
                    "foreign": labels[:i] + [foreign] + labels[i + 1 :],
                    "wrong-l": labels[:i] + [wrong_l] + labels[i + 1 :],
                }
                for kind, bad in variants.items():
                    for direction in ("bad-second", "bad-first", "bad-both", "bad-both-reordered"):
                        for reverse in (False, True):
                            ctx.count()
                            ctx.nontrivial(("corrupt", tuple(labels), kind, i, direction, reverse))
                            # the same corrupted table on both sides (as is, or rotated by one position) names no valid function set either
                            args = {"bad-second": (labels, bad), "bad-first": (bad, labels), "bad-both": (bad, bad), "bad-both-reordered": (bad, bad[1:] + bad[:1])}[direction]
                            if direction.startswith("bad-both") and kind in ("delete", "foreign", "wrong-l"):
                                continue  # consistently shorter / renamed tables are self-consistent conventions of another function set
                            try:
                                res = _convert_convention_shell(list(args[0]), list(args[1]), reverse)
                            except Exception:  # noqa: BLE001 - any exception is a rejection
                                ctx.outcome("corrupt", "rejected")
                                continue
                            ctx.outcome("corrupt", "ACCEPTED")
                            ctx.violation("corrupt", f"corrupt:{kind}-accepted", {"table": name, "key": key, "index": i, "kind": kind, "direction": direction, "reverse": reverse, "good": labels, "bad": bad},
                                          f"{name}{key} with label {i} corrupted ({kind}) was mapped to {res}")


def shell_menu():
    from iodata.basis import Shell

    e1 = [1.5]
    return {
        "s": lambda ic: Shell(ic, [0], ["c"], e1, [[1.0]]),
        "p": lambda ic: Shell(ic, [1], ["c"], e1, [[1.0]]),
        "dc": lambda ic: Shell(ic, [2], ["c"], e1, [[1.0]]),
        "dp": lambda ic: Shell(ic, [2], ["p"], e1, [[1.0]]),
        "sp": lambda ic: Shell(ic, [0, 1], ["c", "c"], e1, [[1.0, 0.5]]),
        "gen": lambda ic: Shell(ic, [2, 2, 1], ["c", "p", "c"], e1, [[1.0, 0.5, 0.25]]),
        "l9c": lambda ic: Shell(ic, [9], ["c"], e1, [[1.0]]),
        "l9p": lambda ic: Shell(ic, [9], ["p"], e1, [[1.0]]),
        "fc": lambda ic: Shell(ic, [3], ["c"], e1, [[1.0]]),
        "fp": lambda ic: Shell(ic, [3], ["p"], e1, [[1.0]]),
    }


def scramble(conv, k):
    """Deterministic non-trivial signed permutation of a convention (k selects one)."""
    n = len(conv)
    labels = [parse(x)[1] for x in conv]
    order = sorted(range(n), key=lambda i: ((i * (2 * k + 3) + k) % n, i))
    out = []
    for j, i in enumerate(order):
        neg = (j * (k + 2) + k) % 3 == 0
        out.append(("-" if neg else "") + labels[i])
    return out


def part_four_bases(ctx, t):
    from iodata.basis import MolecularBasis
    from iodata.convert import convert_conventions

    menu = shell_menu()
    base_names = ["s", "p", "dc", "dp", "sp", "gen"]
    seqs = [seq for n in (1, 2, 3) for seq in itertools.product(base_names, repeat=n)]
    seqs += [("s", "l9c", "dp"), ("l9p", "gen"), ("fc", "fp", "sp")]
    full = {k: list(v) for k, v in t["horton2"].items()}
    convs = {
        "horton2": full,
        "cca": {k: list(v) for k, v in t["cca"].items()},
        "fchk": {k: list(v) for k, v in t["fchk"].items()},
        "scr1": {k: scramble(v, 1) for k, v in full.items()},
        "scr2": {k: scramble(v, 2) for k, v in full.items()},
    }
    names = list(convs)
    triples = [(a, b, c) for a in names for b in names for c in names] if ctx.thorough else [(a, b, names[(names.index(a) + names.index(b) + 1) % len(names)]) for a in names for b in names]
    for seq in seqs:
        shells = [menu[s](i % 2) for i, s in enumerate(seq)]
        for a, b, c in triples:
            ctx.count()
            ctx.nontrivial(("basis", seq, a, b, c))
            ba = MolecularBasis(shells, convs[a], "L2")
            bb = MolecularBasis(shells, convs[b], "L2")
            n = ba.nbasis
            v = np.array([2.0 + 1.5 * i + (i % 3) * 0.125 for i in range(n)])
            # reference by labels with own offsets
            def ref(src, dst):
                perm, signs = [], []
                off = 0
                for sh in shells:
                    for l, k in zip(sh.angmoms, sh.kinds):
                        rp, rs = ref_map(src[(int(l), str(k))], dst[(int(l), str(k))])
                        perm += [off + i for i in rp]
                        signs += rs
                        off += len(rp)
                return np.array(perm), np.array(signs)

            case = {"shells": list(seq), "A": a, "B": b, "C": c}
            try:
                p_ab, s_ab = convert_conventions(ba, convs[b])
                p_ba, s_ba = convert_conventions(ba, convs[b], reverse=True)
                p_bc, s_bc = convert_conventions(bb, convs[c])
                p_ac, s_ac = convert_conventions(ba, convs[c])
            except Exception as exc:  # noqa: BLE001
                ctx.violation("basis-map", f"basis:raises-{type(exc).__name__}", case, repr(exc))
                continue
            rp, rs = ref(convs[a], convs[b])
            shape_ok = all(np.shape(p) == (n,) and np.shape(sg) == (n,) and sorted(np.asarray(p).tolist()) == list(range(n)) and set(np.abs(np.asarray(sg)).tolist()) <= {1}
                           for p, sg in ((p_ab, s_ab), (p_ba, s_ba), (p_bc, s_bc), (p_ac, s_ac)))
            if not shape_ok:
                ctx.outcome("basis-map", "NOT-A-SIGNED-PERMUTATION")
                ctx.violation("basis-map", "basis:not-a-signed-permutation", case, f"convert_conventions on shells {seq} returns a map that is not a signed permutation of range({n}): {np.asarray(p_ab).tolist()}, {np.asarray(s_ab).tolist()}")
                continue
            vb = v[p_ab] * s_ab
            ok1 = (vb == v[rp] * rs).all() and len(p_ab) == n
            ok2 = (vb[p_ba] * s_ba == v).all()
            vc = vb[p_bc] * s_bc
            ok3 = (vc == v[p_ac] * s_ac).all()
            rp2, rs2 = ref(convs[a], convs[c])
            ok3 = ok3 and (vc == v[rp2] * rs2).all()
            ctx.outcome("basis-map", "ok" if ok1 and ok2 and ok3 else "WRONG")
            if len(ctx.samples) < 3 and len(seq) == 3:
                ctx.sample(case)
            if not ok1:
                ctx.violation("basis-map", "basis:wrong-map", case, f"A->B differs from label reference on shells {seq}")
            if not ok2:
                ctx.violation("reverse", "basis:reverse-not-inverse", case, f"reverse=True does not undo A->B on shells {seq}")
            if not ok3:
                ctx.violation("compose", "basis:A-B-C!=A-C", case, f"composition law fails on shells {seq}")
        # a target convention lacking a needed key / holding a corrupted entry must be rejected
        for key in {(int(l), str(k)) for sh in shells for l, k in zip(sh.angmoms, sh.kinds)}:
            for kind in ("missing-key", "short-entry", "duplicate"):
                ctx.count()
                bad = {k: list(v) for k, v in full.items()}
                if kind == "missing-key":
                    del bad[key]
                elif kind == "short-entry":
                    if len(bad[key]) < 2:
                        continue
                    bad[key] = bad[key][:-1]
                else:
                    if len(bad[key]) < 2:
                        continue
                    bad[key][0] = bad[key][1]
                try:
                    res = convert_conventions(MolecularBasis(shells, full, "L2"), bad)
                except Exception:  # noqa: BLE001
                    ctx.outcome("corrupt", "rejected")
                    continue
                ctx.violation("corrupt", f"corrupt:basis-{kind}-accepted", {"shells": list(seq), "key": key, "kind": kind}, f"mapped to {res}")


def run(ctx):
    t = part_one_tables(ctx)
    part_two_cayley(ctx, t)
    part_three_corruptions(ctx, t)
    part_four_bases(ctx, t)
    ctx.exhaustive = True
    ctx.rule = (
        "full product of the 10 convention tables in the code base (ordered pairs x shared shell types); complete hyperoctahedral groups of (1,c) [48, all ordered pairs] and "
        "(2,p) [3840]; Cayley balls (adjacent transposition, sign flip) of depth " + str(ctx.cov.get("cayley_depth")) + " around every built-in entry l<=4; every single-label corruption "
        "(delete/duplicate/foreign/wrong-l) of every entry in both argument positions; all shell sequences of length <=3 over {s,p,d-cart,d-pure,SP,generalized[2c,2p,1c]} (+3 with l=9/f) x "
        "convention triples from {HORTON2,CCA,FCHK,scrambled#1,#2}. A case is distinct by (conv1, conv2) / (shells, A, B, C)."
    )
    ctx.assumptions += ["reference = signed permutation read off the label strings by an own parser; vectors of pairwise distinct floats compared exactly"]


def replay(ctx, payload):
    case = payload["case"]
    if "conv1" in case:
        check_shell_pair(ctx, case["conv1"], case["conv2"], case.get("pair", "replay"))
    elif "a" in case:
        compose_check(ctx, tuple(case["a"]), tuple(case["b"]), tuple(case["c"]), "replay")
    else:
        run(ctx)
        ctx.violations = [v for v in ctx.violations if v.sig == payload["signature"]]
