"""C02 - save-then-reload returns the same data (DBE per format)."""

from __future__ import annotations

from mc import dbe
from props import roundtrip

LEVEL = "exploration"


def jobs(ctx, mode):
    specs = roundtrip.all_specs()
    k = 3 if ctx.thorough else 1
    out = []
    for name, spec in specs.items():
        for case in dbe.cases(spec.space, k):
            nat = case.get("natom", 0)
            ndev = len(dbe.deviations(spec.space, case))
            if nat and nat >= 9999 and ndev > (2 if ctx.thorough else 1):
                continue  # the largest systems only in combination with at most one (thorough: two) other deviation
            out.append((mode, name, case))
    out.sort(key=lambda j: -int(j[2].get("natom", 0) or 0))
    return out, k, specs


def run(ctx):
    from mc.pool import pmap

    js, k, specs = jobs(ctx, "c02")
    pmap(ctx, roundtrip.worker, js, chunk=8)
    roundtrip.minimise_and_merge(ctx, "c02")
    ctx.cov.update(formats=sorted(specs), dbe_k=k, cases=len(js), axes={n: [a for a, _ in s.space] for n, s in specs.items()})
    ctx.exhaustive = True
    ctx.rule = (
        f"per format, deviation-bounded enumeration k<={k} over the format's axes (atom counts crossing every field width, element sets, coordinate ranges, titles, bonds, "
        "optional attributes, grid shapes/values, matrix sizes); each case: build object, dump_one, load_one, compare every attribute the format stores (exact / digits-aware); "
        "violations are minimised to their smallest deviation set. Distinct = (format, deviation set)."
    )
    ctx.assumptions += ["tolerances are 0.6 unit in the last digit the format prints (typed per format in props/fmtspecs.py)", "multi-line titles are outside the stated domain"]


def replay(ctx, payload):
    case = dict(payload["case"])
    fname = case.pop("format")
    spec = roundtrip.all_specs()[fname]
    case = {n: roundtrip._restore(case[n], m) for n, m in spec.space}
    res = roundtrip.worker([("c02", fname, case)], payload.get("seed", 0), "quick")
    for v in res["violations"]:
        ctx.violation(v["clause"], v["sig"], v["case"], v["detail"])
