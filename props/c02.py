"""C02 - save-then-reload returns the same data (DBE per format)."""

from __future__ import annotations

from mc import dbe
from props import roundtrip

FULL_PRODUCT_LIMIT = 7000  # thorough tier: formats whose whole case space has at most this many points are enumerated completely
LEVEL = "exploration"


def jobs(ctx, mode):
    specs = roundtrip.all_specs()
    k = 5 if ctx.thorough else 3
    out = []
    for name, spec in specs.items():
        for case in dbe.cases(spec.space, k):
            nat = case.get("natom", 0)
            ndev = len(dbe.deviations(spec.space, case))
            if nat and nat >= 9999 and ndev > (2 if ctx.thorough else 1):
                continue  # the largest systems only in combination with at most one (thorough: two) other deviation
            out.append((mode, name, case))
    if ctx.thorough:
        # formats with a small space: the full product of all axes (systems of >= 9999 atoms stay deviation-bounded)
        import itertools
        import math

        for name, spec in specs.items():
            if math.prod(len(m) for _, m in spec.space) > FULL_PRODUCT_LIMIT:
                continue
            seen = {repr(sorted(c.items(), key=str)) for m_, n_, c in out if n_ == name}
            for values in itertools.product(*[m for _, m in spec.space]):
                case = dict(zip([n for n, _ in spec.space], values))
                nat = case.get("natom", 0)
                if (nat and nat >= 9999) or repr(sorted(case.items(), key=str)) in seen:
                    continue
                out.append((mode, name, case))
    out.sort(key=lambda j: -int(j[2].get("natom", 0) or 0))
    return out, k, specs


def run(ctx):
    from mc.pool import pmap

    js, k, specs = jobs(ctx, "c02")
    pmap(ctx, roundtrip.worker, js, chunk=8)
    roundtrip.minimise_and_merge(ctx, "c02")
    ctx.cov.update(formats=sorted(specs), dbe_k=k, cases=len(js), axes={n: [a for a, _ in s.space] for n, s in specs.items()})
    ctx.exhaustive = True
    ctx.rule = (
        f"per format, deviation-bounded enumeration k<={k} (thorough: additionally the full product of all axes for every format whose space has <= {FULL_PRODUCT_LIMIT} points) over the format's axes (atom counts crossing every field width, element sets, coordinate ranges, titles, bonds, "
        "optional attributes, grid shapes/values, matrix sizes); each case: build object, dump_one, load_one, compare every attribute the format stores (exact / digits-aware); "
        "violations are minimised to their smallest deviation set. Distinct = (format, deviation set)."
    )
    ctx.assumptions += ["tolerances are 0.6 unit in the last digit the format prints (typed per format in props/fmtspecs.py)", "multi-line titles are outside the stated domain"]


def replay(ctx, payload):
    case = dict(payload["case"])
    fname = case.pop("format")
    spec = roundtrip.all_specs()[fname]
    case = {n: roundtrip._restore(case[n], m) for n, m in spec.space}
    res = roundtrip.worker([("c02", fname, case)], payload.get("seed", 0), "quick")
    for v in res["violations"]:
        ctx.violation(v["clause"], v["sig"], v["case"], v["detail"])
