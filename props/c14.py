"""C14 - segmentation and un-restriction preserve the physics (exhaustive over small shell/orbital menus)."""

from __future__ import annotations

import itertools
import warnings

import numpy as np

from props import common
from ref import gto

LEVEL = "exploration"

SHELL_KINDS = ["s", "p", "dc", "dp", "fc", "fp", "sp", "sss", "pd", "ddp", "s5", "sp3", "ps", "dsp", "ss0"]


def make_shell(name, icenter, j):
    from iodata.basis import Shell

    e = [[1.5], [0.75, 4.0], [0.25, 1.5, 12.5]][j % 3]
    n = len(e)

    def co(ncon):
        return [[round(0.3 + 0.2 * ((i * 3 + c * 5 + j) % 7), 3) * (-1) ** ((i + c) % 3 == 2) for c in range(ncon)] for i in range(n)]

    table = {
        "s": ([0], ["c"]), "p": ([1], ["c"]), "dc": ([2], ["c"]), "dp": ([2], ["p"]), "fc": ([3], ["c"]), "fp": ([3], ["p"]),
        "sp": ([0, 1], ["c", "c"]), "sss": ([0, 0, 0], ["c", "c", "c"]), "pd": ([1, 2], ["c", "p"]), "ddp": ([2, 2, 1], ["c", "p", "c"]),
        "s5": ([0, 0, 0, 0, 0], ["c"] * 5), "sp3": ([0, 1, 0], ["c", "c", "c"]),
        "ps": ([1, 0], ["c", "c"]), "dsp": ([2, 0, 1], ["c", "c", "c"]),  # angular momenta not in ascending order
    }
    if name == "ss0":  # two s contractions whose coefficients cancel in one primitive row (the row sums to exactly zero)
        rows = [[0.5, -0.5], [0.25, 0.75], [-0.125, 0.125]][:n]
        return Shell(icenter, [0, 0], ["c", "c"], e, rows)
    angmoms, kinds = table[name]
    return Shell(icenter, angmoms, kinds, e, co(len(angmoms)))


def expected_segmented(seq, keep_sp):
    """Reference: list of (source shell index, contraction index or None for 'kept whole')."""
    ncon = {"s": 1, "p": 1, "dc": 1, "dp": 1, "fc": 1, "fp": 1, "sp": 2, "sss": 3, "pd": 2, "ddp": 3, "s5": 5, "sp3": 3, "ps": 2, "dsp": 3, "ss0": 2}
    out = []
    for i, name in enumerate(seq):
        if ncon[name] == 1 or (keep_sp and name == "sp"):
            out.append((i, None))
        else:
            out += [(i, c) for c in range(ncon[name])]
    return out


def basis_worker(chunk, seed, tier):
    from iodata import IOData
    from iodata.basis import MolecularBasis
    from iodata.convert import convert_to_segmented
    from iodata.prepare import prepare_segmented
    from iodata.utils import PrepareDumpError, PrepareDumpWarning
    from mc.core import Part

    part = Part(seed, tier)
    conv = common.convention_tables(3)["fchk" if seed % 2 == 0 else "scr1"]
    coords = np.array([[0.0, 0.1, -0.2], [0.9, -0.4, 0.6]])
    pts = gto.PROBE_POINTS[:8]
    for seq, keep_sp in chunk:
        part.count()
        shells = [make_shell(n, i % 2, i + seed) for i, n in enumerate(seq)]
        ob = MolecularBasis(shells, conv, "L2")
        case = {"shells": list(seq), "keep_sp": keep_sp}
        part.nontrivial(repr(case))
        if len(part.samples) < 1 and len(seq) == 3 and "ddp" in seq:
            part.sample(case)
        try:
            seg = convert_to_segmented(ob, keep_sp)
            seg2 = convert_to_segmented(seg, keep_sp)
        except Exception as exc:  # noqa: BLE001
            part.violation("segmented", f"segmented:raises-{type(exc).__name__}", case, repr(exc))
            continue
        want = expected_segmented(seq, keep_sp)
        structure_ok = len(seg.shells) == len(want)
        if structure_ok:
            for sh, (i, c) in zip(seg.shells, want):
                src = shells[i]
                if c is None:
                    structure_ok &= sh.ncon == src.ncon and (sh.angmoms == src.angmoms).all() and (sh.kinds == src.kinds).all() and (sh.coeffs == src.coeffs).all()
                else:
                    structure_ok &= sh.ncon == 1 and sh.angmoms[0] == src.angmoms[c] and sh.kinds[0] == src.kinds[c] and sh.coeffs.shape == (src.nexp, 1) and np.array_equal(sh.coeffs[:, 0], src.coeffs[:, c])
                structure_ok &= sh.icenter == src.icenter and np.array_equal(sh.exponents, src.exponents)
        part.outcome("segmented-structure", "as-expected" if structure_ok else "WRONG")
        if not structure_ok:
            part.violation("segmented", "segmented:structure", case, f"segmented shells {[ (s.icenter, s.angmoms.tolist(), s.kinds.tolist()) for s in seg.shells]} do not match the source contractions in order")
        # same functions in the same order (independent evaluator), same overlap, idempotent
        v0 = gto.eval_basis(common.plain(ob), conv, coords, pts)
        try:
            v1 = gto.eval_basis(common.plain(seg), seg.conventions, coords, pts)
        except Exception as exc:  # noqa: BLE001
            part.violation("segmented", "segmented:result-cannot-be-evaluated", case, f"the segmented basis is not a well-formed basis: {exc!r}")
            continue
        same = v0.shape == v1.shape and np.abs(v0 - v1).max() <= 1e-14 * max(1.0, np.abs(v0).max())
        part.outcome("segmented-functions", "identical" if same else "WRONG")
        if not same:
            part.violation("segmented", "segmented:functions-differ", case, f"basis function values differ after segmentation: shapes {v0.shape} {v1.shape}")
        else:
            s0 = gto.overlap(common.plain(ob), conv, coords)
            s1 = gto.overlap(common.plain(seg), seg.conventions, coords)
            if np.abs(s0 - s1).max() > 1e-13:
                part.violation("segmented", "segmented:overlap-differs", case, f"max diff {np.abs(s0 - s1).max():.2e}")
        idem = len(seg2.shells) == len(seg.shells) and all(a.icenter == b.icenter and (a.angmoms == b.angmoms).all() and (a.kinds == b.kinds).all() and (a.exponents == b.exponents).all() and (a.coeffs == b.coeffs).all() for a, b in zip(seg.shells, seg2.shells))
        part.outcome("segmented-idempotent", "yes" if idem else "WRONG")
        if not idem:
            part.violation("segmented", "segmented:not-idempotent", case, "converting twice differs from converting once")
        if seg.conventions != ob.conventions or seg.primitive_normalization != ob.primitive_normalization:
            part.violation("segmented", "segmented:conventions-changed", case, "conventions / normalisation changed")
        # prepare_segmented
        data = IOData(atnums=[1, 1], atcoords=coords, obasis=ob)
        needs = len(want) != len(seq)
        for allow in (False, True):
            part.count()
            with warnings.catch_warnings(record=True) as wl:
                warnings.simplefilter("always")
                try:
                    out = prepare_segmented(data, keep_sp, allow, "x.fmt", "FMT")
                    err = None
                except PrepareDumpError as exc:
                    out, err = None, exc
                except Exception as exc:  # noqa: BLE001
                    part.violation("prepare", f"prepare_segmented:raises-{type(exc).__name__}", {**case, "allow_changes": allow}, repr(exc))
                    continue
            warned = any(issubclass(w.category, PrepareDumpWarning) for w in wl)
            if not needs:
                ok = out is data and not warned
            elif not allow:
                ok = err is not None and not warned
            else:
                ok = out is not None and out is not data and warned and out.obasis is not ob and len(out.obasis.shells) == len(want) and out.atcoords is data.atcoords
            part.outcome("prepare_segmented", ("same-object" if not needs else ("error" if not allow else "converted+warning")) if ok else "WRONG")
            if not ok:
                part.violation("prepare", "prepare_segmented:" + ("needs" if needs else "noop") + f":allow={allow}", {**case, "allow_changes": allow},
                               f"needs_conversion={needs} allow={allow}: returned same={out is data}, error={err!r}, warned={warned}")
    return part.result()


def mo_cases():
    out = []
    for norb in (1, 2, 3, 4):
        occs = {
            "closed": [2.0 if i < (norb + 1) // 2 else 0.0 for i in range(norb)],
            "open": [2.0, 1.0, 1.0, 0.0][:norb],
            "frac": [1.75, 1.25, 0.5, 0.125][:norb],
            "near-integer": [2.0, 1.0 + 1e-10, 1.0 - 1e-10, 0.0][:norb],  # natural occupations within rounding noise of integers
            "tiny-frac": [2.0 - 2.0**-40, 1.0, 2.0**-40, 0.0][:norb],
            "none": None,
        }
        for oname, occ in occs.items():
            ams = ["none"] if occ is None else ["none", "pos", "neg", "zero"]
            for am in ams:
                for missing in itertools.chain([()], [("coeffs",), ("energies",), ("irreps",), ("coeffs", "energies", "irreps")]):
                    out.append((norb, oname, am, missing))
    return out


def mo_worker(chunk, seed, tier):
    from iodata import IOData
    from iodata.convert import convert_to_unrestricted
    from iodata.orbitals import MolecularOrbitals
    from iodata.prepare import prepare_unrestricted_aminusb
    from iodata.utils import PrepareDumpError, PrepareDumpWarning
    from mc.core import Part

    part = Part(seed, tier)
    for norb, oname, am, missing in chunk:
        part.count()
        occ = {"closed": [2.0 if i < (norb + 1) // 2 else 0.0 for i in range(norb)], "open": [2.0, 1.0, 1.0, 0.0][:norb], "frac": [1.75, 1.25, 0.5, 0.125][:norb], "near-integer": [2.0, 1.0 + 1e-10, 1.0 - 1e-10, 0.0][:norb],
               "tiny-frac": [2.0 - 2.0**-40, 1.0, 2.0**-40, 0.0][:norb], "none": None}[oname]
        amv = {"none": None, "pos": [0.0, 1.0, 0.5, 0.125][:norb], "neg": [-0.25, -1.0, 0.5, 0.0][:norb], "zero": [0.0] * norb}[am]
        nb = 3
        kw = dict(occs=occ, coeffs=common.int_matrix(nb, norb, seed), energies=np.arange(norb) * 0.5 - 1, irreps=np.array([f"a{i}" for i in range(norb)]), occs_aminusb=amv)
        for m in missing:
            kw[m] = None
        mo = MolecularOrbitals("restricted", norb, norb, **kw)
        case = {"norb": norb, "occs": oname, "occs_aminusb": am, "missing": list(missing)}
        part.nontrivial(repr(case))
        if len(part.samples) < 1 and am == "neg":
            part.sample(case)
        # expected alpha/beta occupations from the documented rules (class docstring), written out here
        if occ is None:
            ea = eb = None
        elif amv is not None:
            ea = (np.array(occ) + np.array(amv)) / 2
            eb = (np.array(occ) - np.array(amv)) / 2
        elif all(float(o).is_integer() for o in occ):
            ea = np.clip(occ, 0, 1)
            eb = np.array(occ) - ea
        else:
            ea = eb = np.array(occ) / 2
        try:
            u = convert_to_unrestricted(mo)
            u2 = convert_to_unrestricted(u)
        except Exception as exc:  # noqa: BLE001
            part.violation("unrestricted", f"unrestricted:raises-{type(exc).__name__}", case, repr(exc))
            continue

        def eq(a, b):
            if a is None or b is None:
                return a is None and b is None
            return np.shape(a) == np.shape(b) and bool(np.all(np.asarray(a) == np.asarray(b)))

        checks = {
            "kind": u.kind == "unrestricted" and u.norba == norb and u.norbb == norb and u.occs_aminusb is None,
            "occsa": eq(u.occsa, ea), "occsb": eq(u.occsb, eb),
            "coeffsa": eq(u.coeffsa, mo.coeffs), "coeffsb": eq(u.coeffsb, mo.coeffs),
            "energiesa": eq(u.energiesa, mo.energies), "energiesb": eq(u.energiesb, mo.energies),
            "irrepsa": eq(u.irrepsa, mo.irreps), "irrepsb": eq(u.irrepsb, mo.irreps),
            "nelec": (u.nelec is None and mo.nelec is None) or abs(u.nelec - mo.nelec) < 1e-12,
            "spinpol": (u.spinpol is None and ea is None) or abs(u.spinpol - abs(ea.sum() - eb.sum())) < 1e-12,
            "spinpol-as-source": (u.spinpol is None and mo.spinpol is None) or (u.spinpol is not None and mo.spinpol is not None and abs(u.spinpol - mo.spinpol) < 1e-12),
            "idempotent": u2 is u,
        }
        if ea is not None and mo.coeffs is not None:
            # density and spin density matrices agree with the documented alpha/beta occupations
            d_tot = (mo.coeffs * (ea + eb)) @ mo.coeffs.T
            d_spin = (mo.coeffs * (ea - eb)) @ mo.coeffs.T
            da = (u.coeffsa * u.occsa) @ u.coeffsa.T
            db = (u.coeffsb * u.occsb) @ u.coeffsb.T
            checks["density"] = np.abs(da + db - d_tot).max() < 1e-12
            checks["spin-density"] = np.abs(da - db - d_spin).max() < 1e-12
        for lab, ok in checks.items():
            part.outcome("unrestricted", lab if ok else lab + "-WRONG")
            if not ok:
                part.violation("unrestricted", f"unrestricted:{lab}", case, f"{lab} not preserved by convert_to_unrestricted")
        # prepare_unrestricted_aminusb
        data = IOData(mo=mo)
        needs = amv is not None
        for allow in (False, True):
            part.count()
            with warnings.catch_warnings(record=True) as wl:
                warnings.simplefilter("always")
                try:
                    out = prepare_unrestricted_aminusb(data, allow, "x.fmt", "FMT")
                    err = None
                except PrepareDumpError as exc:
                    out, err = None, exc
                except Exception as exc:  # noqa: BLE001
                    part.violation("prepare", f"prepare_unrestricted:raises-{type(exc).__name__}", {**case, "allow_changes": allow}, repr(exc))
                    continue
            warned = any(issubclass(w.category, PrepareDumpWarning) for w in wl)
            if not needs:
                ok = out is data and not warned
            elif not allow:
                ok = err is not None and not warned
            else:
                ok = out is not None and out is not data and warned and out.mo.kind == "unrestricted"
            part.outcome("prepare_unrestricted", "ok" if ok else "WRONG")
            if not ok:
                part.violation("prepare", "prepare_unrestricted:" + ("needs" if needs else "noop") + f":allow={allow}", {**case, "allow_changes": allow},
                               f"needs={needs}: same={out is data} err={err!r} warned={warned}")
    return part.result()


def misc(ctx):
    from iodata import IOData
    from iodata.convert import convert_to_unrestricted
    from iodata.orbitals import MolecularOrbitals
    from iodata.prepare import prepare_unrestricted_aminusb

    g = MolecularOrbitals("generalized", None, None, occs=[1.0, 0.0], coeffs=np.eye(4)[:, :2])
    for name, fn in (("convert", lambda: convert_to_unrestricted(g)), ("prepare", lambda: prepare_unrestricted_aminusb(IOData(mo=g), True, "f", "F"))):
        ctx.count()
        ctx.nontrivial(("generalized", name))
        try:
            fn()
            ctx.violation("generalized", f"generalized:{name}-accepted", {"case": name}, "generalized orbitals were converted")
        except ValueError:
            ctx.outcome("generalized", "ValueError")
        except Exception as exc:  # noqa: BLE001
            ctx.violation("generalized", f"generalized:{name}-raises-{type(exc).__name__}", {"case": name}, repr(exc))
    u = MolecularOrbitals("unrestricted", 1, 2, occs=[1.0, 1.0, 0.0], coeffs=np.ones((2, 3)))
    ctx.count()
    if convert_to_unrestricted(u) is not u or prepare_unrestricted_aminusb(IOData(mo=u), False, "f", "F").mo is not u:
        ctx.violation("unrestricted", "unrestricted:already-unrestricted-not-returned-as-is", {}, "")


def run(ctx):
    from mc.pool import pmap

    maxlen = 4 if ctx.thorough else 3
    names = SHELL_KINDS if ctx.thorough else SHELL_KINDS[:6] + ["sp", "sss", "ddp", "s5", "ps", "ss0", "sp3"]
    seqs = [s for n in range(1, maxlen + 1) for s in itertools.product(names, repeat=n)]
    jobs = [(s, k) for s in seqs for k in (False, True)]
    pmap(ctx, basis_worker, jobs, chunk=32)
    pmap(ctx, mo_worker, mo_cases(), chunk=16)
    misc(ctx)
    ctx.cov.update(shell_sequences=len(seqs), mo_cases=len(mo_cases()))
    ctx.exhaustive = True
    ctx.rule = (
        f"all shell sequences of length <= {maxlen} over {len(names)} shell kinds (segmented s..f Cartesian/pure, SP, [0,0,0], [1,2p], [2c,2p,1], 5-contraction s, [0,1,0]) x keep_sp; "
        "all restricted orbital sets norb 1..4 x occupations {closed, open, fractional, within 1e-10 of integers, 2^-40 away from integers, None} x occs_aminusb {None,+,-,0} x missing optional arrays; each x allow_changes for the prepare_* wrappers. "
        "Function values are compared with the independent evaluator ref/gto.py at 8 probe points."
    )


def replay(ctx, payload):
    case = payload["case"]
    if "shells" in case:
        res = basis_worker([(tuple(case["shells"]), case["keep_sp"])], payload.get("seed", 0), "quick")
    elif "norb" in case:
        res = mo_worker([(case["norb"], case["occs"], case["occs_aminusb"], tuple(case["missing"]))], payload.get("seed", 0), "quick")
    else:
        misc(ctx)
        return
    for v in res["violations"]:
        ctx.violation(v["clause"], v["sig"], v["case"], v["detail"])
