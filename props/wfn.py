"""Wavefunction object generator and comparison helpers (C01, C05, C09, C02/C15 wavefunction formats)."""

from __future__ import annotations

import itertools

import numpy as np

from props import common
from ref import gto

TARGETS = {"fchk": "w.fchk", "molden": "w.molden", "molekel": "w.mkl", "wfn": "w.wfn", "wfx": "w.wfx"}
EXPS = [0.25, 0.75, 1.5, 4.0, 12.5, 130.0]
COEFS = [0.5, 0.25, 1.0, 0.75, 0.125, 2.0]

SPACE = [
    ("centers", ["2", "1", "3", "3+ghost", "3+ecp", "6"]),
    ("shellset", ["+d-cart", "sp", "+d-pure", "+f-cart", "+f-pure", "+g-cart", "+g-pure", "+h-cart", "+h-pure", "d-cart+d-pure", "empty-center", "pure-g+cart-h", "cart-d+pure-f"]),
    ("contraction", ["segmented", "SP", "gen-ss", "gen-pd", "3-primitives", "gen-ps"]),
    ("shell_order", ["grouped", "reversed", "interleaved", "rotated", "perm2", "perm3", "skip-first-center"]),
    ("conventions", ["own", "fchk", "molden", "wfn", "mwfn", "horton2", "cca", "orca", "scr1", "scr2"]),
    ("mo", ["restricted", "rohf", "rohf-triplet", "beta-hole", "fractional", "aminusb", "aminusb-neg", "aminusb-zero", "aminusb-balanced", "unrestricted", "unrestricted-na>nb", "unrestricted-fractional-beta", "occupied-only", "irreps", "unrestricted-occupied-only"]),
    ("extras", ["none", "rdm-scf", "rdm-scf+spin", "rdm-post", "energy-none", "title-none", "atcharges", "mo_spin", "mo_spin-stale", "fortran-arrays", "strided-arrays"]),
]

CENTER_Z = [8, 1, 1, 6, 7, 3]


def conventions_for(name, target):
    tabs = common.convention_tables(9)
    if name == "own":
        name = {"fchk": "fchk", "molden": "molden", "molekel": "molden", "wfn": "wfn", "wfx": "wfn"}[target]
    if name == "orca":
        from iodata.basis import MolecularBasis, Shell
        from iodata.formats import molden

        dummy = MolecularBasis([Shell(0, [0], ["c"], [1.0], [[1.0]])], molden.CONVENTIONS, "L2")
        orca = molden._fix_obasis_orca(dummy).conventions
        d = {k: list(v) for k, v in tabs["horton2"].items()}
        d.update({k: list(v) for k, v in orca.items()})
        return d
    return tabs[name]


def shell_list(case, ncenter, seed):
    """List of (icenter, angmoms, kinds, nprim) before ordering."""
    ss = case["shellset"]
    base = [(0, [0], ["c"]), (0, [1], ["c"]), (1 % ncenter, [0], ["c"])]
    extra = {
        "sp": [], "+d-cart": [(0, [2], ["c"])], "+d-pure": [(0, [2], ["p"])], "+f-cart": [(1 % ncenter, [3], ["c"])], "+f-pure": [(1 % ncenter, [3], ["p"])],
        "+g-cart": [(0, [4], ["c"])], "+g-pure": [(0, [4], ["p"])], "+h-cart": [(0, [5], ["c"])], "+h-pure": [(0, [5], ["p"])],
        "d-cart+d-pure": [(0, [2], ["c"]), (1 % ncenter, [2], ["p"])], "empty-center": [],
        "pure-g+cart-h": [(0, [4], ["p"]), (0, [5], ["c"])], "cart-d+pure-f": [(0, [2], ["c"]), (0, [3], ["p"])],
    }[ss]
    shells = base + extra
    for ic in range(2, ncenter):
        if ss == "empty-center" and ic == ncenter - 1:
            continue
        shells.append((ic, [0], ["c"]))
    if ss == "empty-center" and ncenter <= 2:
        # centre 1 (or 0 for a single atom) carries no shell at all
        shells = [(0, a, k) for (ic, a, k) in shells]
    con = case["contraction"]
    out = []
    for i, (ic, angmoms, kinds) in enumerate(shells):
        nprim = 1
        if con == "3-primitives" and i in (0, 1):
            nprim = 3
        out.append([ic, list(angmoms), list(kinds), nprim])
    if con == "SP":
        # replace s@0 and p@0 by one SP shell
        out = [[0, [0, 1], ["c", "c"], 2]] + out[2:]
    elif con == "gen-ps":
        # the same two contractions as an SP shell, listed P first: a generalized contraction, not an SP shell
        out = [[0, [1, 0], ["c", "c"], 2]] + out[2:]
    elif con == "gen-ss":
        out[0] = [0, [0, 0], ["c", "c"], 2]
    elif con == "gen-pd":
        out[1] = [0, [1, 2], ["c", "p"], 2]
    return out


def order_shells(shells, kind):
    n = len(shells)
    grouped = sorted(range(n), key=lambda i: (shells[i][0], i))
    if kind == "grouped":
        idx = grouped
    elif kind == "reversed":
        idx = grouped[::-1]
    elif kind == "interleaved":
        by = {}
        for i in grouped:
            by.setdefault(shells[i][0], []).append(i)
        idx = [x for tup in itertools.zip_longest(*by.values()) for x in tup if x is not None]
    elif kind == "rotated":
        idx = grouped[1:] + grouped[:1]
    elif kind == "perm2":
        idx = [grouped[(i * 2 + 1) % n] if n % 2 else grouped[i ^ 1] if (i ^ 1) < n else grouped[i] for i in range(n)]
        if sorted(idx) != list(range(n)):
            idx = grouped[::-1]
    elif kind == "perm3":
        idx = grouped[2:] + grouped[:2][::-1]
    elif kind == "skip-first-center":
        idx = grouped  # handled by the caller: all shells moved away from centre 0
    else:
        raise KeyError(kind)
    return [shells[i] for i in idx]


class Infeasible(Exception):
    """The generator cannot realise this case (e.g. the generated basis is linearly dependent)."""


def build(case, target, seed=0):
    """Return (IOData, meta) for one case and target format."""
    from iodata import IOData
    from iodata.basis import MolecularBasis, Shell
    from iodata.orbitals import MolecularOrbitals

    cen = case["centers"]
    ncenter = int(cen[0])
    z = np.array(CENTER_Z[:ncenter])
    cores = z.astype(float)
    explicit_cores = False
    if cen == "3+ghost":
        cores = cores.copy()
        cores[2] = 0.0
        explicit_cores = True
    elif cen == "3+ecp":
        cores = cores.copy()
        cores[0] = 6.0
        explicit_cores = True
    xyz = np.array([[0.0, 0.0, 0.0], [0.0, 1.5, 0.75], [1.25, -0.5, 0.25], [-1.0, 0.5, 1.5], [0.5, 2.0, -1.25], [2.25, 1.0, 1.0]])[:ncenter]
    spec = shell_list(case, ncenter, seed)
    if case["shell_order"] == "skip-first-center" and ncenter >= 2:
        spec = [[ic if ic != 0 else ncenter - 1, a, k, n] for ic, a, k, n in spec]
    spec = order_shells(spec, case["shell_order"])
    shells = []
    for j, (ic, angmoms, kinds, nprim) in enumerate(spec):
        ex = [EXPS[(j + p * 2 + seed) % len(EXPS)] for p in range(nprim)]
        if len(set(ex)) < nprim:
            ex = EXPS[:nprim]
        co = [[COEFS[(j + p + c * 3 + seed) % len(COEFS)] for c in range(len(angmoms))] for p in range(nprim)]
        shells.append(Shell(ic, angmoms, kinds, ex, co))
    conv = conventions_for(case["conventions"], target)
    obasis = MolecularBasis(shells, conv, "L2")
    nb = obasis.nbasis
    s = gto.overlap(common.plain(obasis), conv, xyz)
    if np.linalg.eigvalsh(s).min() < 1e-6:
        raise Infeasible("linearly dependent basis")
    mokind = case["mo"]
    occupied_only = "occupied-only" in mokind
    nocc = max(1, min(3, nb - 1)) if nb > 1 else 1
    if mokind.startswith("unrestricted"):
        na, nb_ = (nocc, nocc) if mokind == "unrestricted" else (nocc, max(nocc - 1, 0))
        if mokind == "unrestricted-occupied-only":
            norba, norbb = na, max(nb_, 1)
            na, nb_ = norba, norbb
        else:
            norba = norbb = nb
        ca = common.lowdin_orthonormal(s, common.int_matrix(nb, norba, seed))
        cb = common.lowdin_orthonormal(s, common.int_matrix(nb, norbb, seed + 5))
        occs = np.concatenate([[1.0] * na + [0.0] * (norba - na), [1.0] * nb_ + [0.0] * (norbb - nb_)])
        if mokind == "unrestricted-fractional-beta" and na >= 2:
            # alpha aufbau with na electrons; beta: na-1 full orbitals and a fractional one inside the alpha-occupied range
            occs = np.concatenate([[1.0] * na + [0.0] * (norba - na), [1.0] * (na - 1) + [0.4] + [0.0] * (norbb - na)])
        energies = np.concatenate([-1.5 + 0.25 * np.arange(norba), -1.375 + 0.25 * np.arange(norbb)])
        mo = MolecularOrbitals("unrestricted", norba, norbb, occs, np.hstack([ca, cb]), energies)
    else:
        norb = nocc if occupied_only else nb
        c = common.lowdin_orthonormal(s, common.int_matrix(nb, norb, seed))
        energies = -1.5 + 0.25 * np.arange(norb)
        am = None
        if mokind in ("restricted", "occupied-only", "irreps"):
            occs = np.array([2.0] * nocc + [0.0] * (norb - nocc))
        elif mokind == "rohf":
            occs = np.array(([2.0] * (nocc - 1) + [1.0] + [0.0] * norb)[:norb])
        elif mokind == "beta-hole":
            # alpha occupations (1,1,0,..) are aufbau, beta occupations (0,1,0,..) are not
            occs = np.array(([1.0, 2.0] + [0.0] * norb)[:norb])
        elif mokind == "rohf-triplet":
            occs = np.array(([2.0] * max(nocc - 2, 0) + [1.0, 1.0] + [0.0] * norb)[:norb])
        elif mokind == "fractional":
            occs = np.array(([1.75, 1.5, 0.5, 0.25] + [0.0] * norb)[:norb])
        elif mokind == "aminusb":
            occs = np.array(([2.0, 1.5, 0.5] + [0.0] * norb)[:norb])
            am = np.array(([0.0, 0.5, 0.5] + [0.0] * norb)[:norb])
        elif mokind == "aminusb-neg":  # more beta than alpha electrons
            occs = np.array(([2.0, 1.5, 0.5] + [0.0] * norb)[:norb])
            am = np.array(([0.0, -0.5, -0.5] + [0.0] * norb)[:norb])
        elif mokind == "aminusb-balanced":  # spin density without net spin polarisation (alpha-minus-beta sums to zero)
            occs = np.array(([2.0, 1.5, 1.5] + [0.0] * norb)[:norb])
            am = np.array(([0.0, 0.5, -0.5] + [0.0] * norb)[:norb])
        elif mokind == "aminusb-zero":  # spin-averaged open shell: integer occupations with an explicit, all-zero alpha-minus-beta
            occs = np.array(([2.0, 1.0, 1.0] + [0.0] * norb)[:norb])
            am = np.zeros(norb)
        irreps = np.array([f"{i + 1}a" for i in range(norb)]) if mokind == "irreps" else None
        mo = MolecularOrbitals("restricted", norb, norb, occs, c, energies, irreps, am)
    kw = dict(atnums=z, atcoords=xyz, obasis=obasis, mo=mo, energy=-76.25, title="generated wavefunction")
    if explicit_cores:
        kw["atcorenums"] = cores
    ex = case["extras"]
    if ex == "energy-none":
        kw.pop("energy")
    elif ex == "title-none":
        kw.pop("title")
    elif ex.startswith("rdm"):
        sym = common.int_matrix(nb, nb, seed + 11)
        sym = (sym + sym.T) / 2
        rd = {}
        if ex == "rdm-scf":
            rd["scf"] = sym
        elif ex == "rdm-scf+spin":
            rd["scf"] = sym
            rd["scf_spin"] = sym[::-1, ::-1].copy() * 0.5
        else:
            rd["post_scf_ao"] = sym
            rd["post_scf_spin_ao"] = sym[::-1, ::-1].copy() * 0.25
            kw["lot"] = "MP2"
        kw["one_rdms"] = rd
    elif ex == "atcharges":
        kw["atcharges"] = {"mulliken": np.linspace(-0.5, 0.5, ncenter)}
    elif ex == "mo_spin-stale":  # labels left over from before orbitals were dropped: more labels than orbitals
        n_old = (mo.norba if mo.kind == "restricted" else mo.norba + mo.norbb) + 29
        kw["extra"] = {"mo_spin": np.array(([1, 2] * n_old)[:n_old])}
    elif ex == "mo_spin":  # the Multiwfn $MOSPIN labels a WFN reader stores in extra
        kw["extra"] = {"mo_spin": np.array([3] * mo.norba) if mo.kind == "restricted" else np.array([1] * mo.norba + [2] * mo.norbb)}
    data = IOData(**kw)
    if ex in ("fortran-arrays", "strided-arrays"):  # same values, another memory layout of every array
        from props import roundtrip

        data = roundtrip.relayout(data, "F" if ex == "fortran-arrays" else "strided")
    return data, {"nbasis": nb, "ncenter": ncenter}


# --------------------------------------------------------------------------------------------------
# denotation of an object: orbitals as functions of space


def orbital_values(data, coords=None, points=None):
    """(norb, npoint) values of all spatial orbitals (coeff columns) using the independent evaluator."""
    coords = data.atcoords if coords is None else coords
    points = gto.PROBE_POINTS if points is None else points
    bv = gto.eval_basis(common.plain(data.obasis), data.obasis.conventions, coords, points)
    return gto.eval_orbitals(data.mo.coeffs, bv), bv


def flat_orbitals(data):
    """Flat list description: kind, occupations (total per listed orbital), energies."""
    mo = data.mo
    return mo.kind, np.array(mo.occs, dtype=float), None if mo.energies is None else np.array(mo.energies, dtype=float)


def _round_sig(x, sig):
    x = np.asarray(x, dtype=float)
    out = np.array([float(f"{v:.{sig - 1}E}") for v in x.ravel()]).reshape(x.shape)
    return out


def _round_dec(x, dec):
    return np.round(np.asarray(x, dtype=float), dec)


def printed_basis(data, target):
    """The source basis with exponents / contraction coefficients rounded to the digits the target prints.

    "To within the digits the format prints": the written file denotes the functions of this rounded basis.
    (WFN/WFX fold the contraction coefficients into the orbital coefficients; only exponents are printed.)
    """
    shells = common.plain(data.obasis)
    out = []
    for ic, angmoms, kinds, exps, coeffs in shells:
        exps = np.array(exps)
        coeffs = np.array(coeffs)
        if target == "fchk":
            exps, coeffs = _round_sig(exps, 9), _round_sig(coeffs, 9)
        elif target in ("molden", "molekel"):
            exps, coeffs = _round_dec(exps, 10), _round_dec(coeffs, 10)
        elif target == "wfn":
            exps = _round_sig(exps, 8)
        elif target == "wfx":
            exps = _round_sig(exps, 15)
        out.append((ic, angmoms, kinds, exps.tolist(), coeffs.tolist()))
    return out
