"""C05 - Molden/Molekel files with vendor quirks load as the true wavefunction (product over shells x vendors + DBE)."""

from __future__ import annotations

import itertools
import math
import os
import shutil
import warnings

import numpy as np

from mc import dbe
from props import common
from ref import gto, vendors

LEVEL = "exploration"

ATOMS = [(8, 0.0, 0.0, 0.0), (1, 0.0, 1.4, 1.1)]
EXP2 = {0: [5.5, 0.75], 1: [2.5, 0.5], 2: [1.75, 0.625], 3: [1.25, 0.875], 4: [1.5, 1.0], 5: [1.125, 0.9375]}
OTHER = [
    ("container", ["molden-au", "molden-angs", "molekel"]),
    ("mo", ["restricted", "unrestricted"]),
    ("norm_threshold", [1e-4, 1e-3, 1e-6]),
    ("corruption", ["none", "primitive-scaled", "mo-coefficient-perturbed", "two-quirks-mixed", "function-dropped-sign", "norm-off-within-threshold"]),
    ("primitive_order", ["decreasing", "increasing", "increasing-tight-last"]),  # the formats do not prescribe an order of the primitives
    ("geometry", ["bonded", "stretched"]),
]
ATOMS_OF = {"bonded": ATOMS, "stretched": [(8, 0.0, 0.0, 0.0), (1, 0.0, 2.4, 1.8)]}


def shell_sets(lmax):
    """Every non-empty subset of angular momenta 0..lmax, each l>=2 as Cartesian or pure."""
    out = []
    ls = list(range(lmax + 1))
    for r in range(1, len(ls) + 1):
        for sub in itertools.combinations(ls, r):
            high = [l for l in sub if l >= 2]
            for kinds in itertools.product("cp", repeat=len(high)):
                km = dict(zip(high, kinds))
                if 4 in km and 5 in km and km[4] != km[5]:
                    continue  # Molden cannot express mixed g/h kinds
                if 5 in km and km[5] == "c":
                    continue  # no Cartesian h in Molden
                out.append(tuple((l, km.get(l, "c")) for l in sub))
    return out


def true_wavefunction(shellset, mo_kind, seed, atoms=ATOMS, tight=False):
    """Plain-data wavefunction with normalised contractions and a complete orthonormal orbital set."""
    shells = []
    for j, (l, kind) in enumerate(shellset):
        exps = EXP2[l]
        raw = [0.6, 0.5]
        if tight:  # a third, much tighter primitive (listed last once the order is reversed)
            exps = [exps[0] * 10.0, *exps]
            raw = [0.3, *raw]
        one = [(0, l, kind, exps, raw)]
        conv = {(l, kind): vendors.MOLDEN[(l, kind)]}
        gshell = [(0, [l], [kind], exps, [[c] for c in raw])]
        norm = math.sqrt(gto.overlap(gshell, conv, [[0.0, 0.0, 0.0]])[0, 0])
        shells.append(((l + j) % 2, l, kind, exps, [c / norm for c in raw]))
    shells.sort(key=lambda s: s[0])
    gshells = [(ic, [l], [k], e, [[c] for c in co]) for ic, l, k, e, co in shells]
    coords = np.array([a[1:] for a in atoms])
    s = gto.overlap(gshells, vendors.MOLDEN, coords)
    nb = s.shape[0]
    ca = common.lowdin_orthonormal(s, common.int_matrix(nb, nb, seed))
    nocc = max(1, min(2, nb))
    if mo_kind == "restricted":
        orbs = [("Alpha", [(-1.0 + 0.25 * i, 2.0 if i < nocc else 0.0, f"{i + 1}a", ca[:, i].tolist()) for i in range(nb)])]
        nelec = 2 * nocc
        mult = 1
        coeffs = ca
    else:
        cb = common.lowdin_orthonormal(s, common.int_matrix(nb, nb, seed + 9))
        nb_occ = max(nocc - 1, 0)
        orbs = [("Alpha", [(-1.0 + 0.25 * i, 1.0 if i < nocc else 0.0, f"{i + 1}a", ca[:, i].tolist()) for i in range(nb)]),
                ("Beta", [(-0.9 + 0.25 * i, 1.0 if i < nb_occ else 0.0, f"{i + 1}b", cb[:, i].tolist()) for i in range(nb)])]
        nelec = nocc + nb_occ
        mult = nocc - nb_occ + 1
        coeffs = np.hstack([ca, cb])
    return shells, gshells, coords, orbs, coeffs, nelec, mult


def corrupt(kind, shells, orbs, thr):
    shells = [(ic, l, k, list(e), list(c)) for ic, l, k, e, c in shells]
    orbs = [(spin, [(e, o, irr, list(v)) for e, o, irr, v in lst]) for spin, lst in orbs]
    if kind == "primitive-scaled":
        ic, l, k, e, c = shells[-1]
        c[0] *= 1.7
    elif kind == "mo-coefficient-perturbed":
        v = orbs[0][1][0][3]
        i = int(np.argmax(np.abs(v)))
        v[i] += 50 * thr
    elif kind == "norm-off-within-threshold":
        # one orbital scaled so that its norm is off by a third of the threshold the caller allows: still an acceptable file
        spin, lst = orbs[0]
        e, o, irr, v = lst[0]
        lst[0] = (e, o, irr, [c * (1.0 + thr / 6.0) for c in v])
    elif kind == "function-dropped-sign":
        v = orbs[0][1][-1][3]
        i = int(np.argmax(np.abs(v)))
        v[i] = -v[i] if abs(v[i]) > 0.05 and len(v) > 1 else v[i] + 0.3
    return shells, orbs


def worker(chunk, seed, tier):
    from iodata import load_one
    from iodata.utils import LoadError, LoadWarning
    from mc.core import Part, make_scratch

    part = Part(seed, tier)
    tmp = make_scratch()
    pts = gto.PROBE_POINTS[:10]
    try:
        for shellset, vendor, other in chunk:
            part.count()
            info = {"shells": [f"{vendors.ANGMOM[l]}{k}" for l, k in shellset], "vendor": vendor, **other}
            part.nontrivial(repr(info))
            if len(part.samples) < 1 and vendor == "orca":
                part.sample(info)
            thr = other["norm_threshold"]
            if other["corruption"] == "norm-off-within-threshold":
                thr = 1e-2  # a caller-chosen, generous threshold: a branch that silently falls back to the default 1e-4 rejects the file
            atoms = ATOMS_OF[other.get("geometry", "bonded")]
            shells, gshells, coords, orbs, coeffs, nelec, mult = true_wavefunction(shellset, other["mo"], seed, atoms, tight=other.get("primitive_order") == "increasing-tight-last")
            truth = gto.eval_orbitals(coeffs, gto.eval_basis(gshells, vendors.MOLDEN, coords, pts))
            enc_shells, enc_orbs, differs = vendors.encode(vendor, shells, orbs, seed)
            if other["corruption"] == "two-quirks-mixed":
                # first shell as ORCA/Turbomole would write it, the rest as the named vendor: matches no single correction
                alt = "turbomole" if any(k == "c" and l >= 2 for l, k in shellset) else "orca"
                alt_shells, _, _ = vendors.encode(alt, shells, orbs, seed)
                if alt_shells[0][4] == enc_shells[0][4]:
                    part.outcome("generator", "infeasible-mixed-quirk")
                    continue
                enc_shells = [alt_shells[0]] + enc_shells[1:]
            elif other["corruption"] != "none":
                enc_shells, enc_orbs = corrupt(other["corruption"], enc_shells, enc_orbs, thr)
            if other.get("primitive_order", "decreasing") != "decreasing":
                enc_shells = [(ic, l, k, list(e)[::-1], list(c)[::-1]) for ic, l, k, e, c in enc_shells]
            if other["container"] == "molekel":
                text = vendors.write_molekel(atoms, enc_shells, enc_orbs, int(sum(a[0] for a in atoms) - nelec), mult)
                path = str(tmp / "v.mkl")
            else:
                text = vendors.write_molden(atoms, enc_shells, enc_orbs, "AU" if other["container"] == "molden-au" else "Angs")
                path = str(tmp / "v.molden")
            with open(path, "w") as fh:
                fh.write(text)
            with warnings.catch_warnings(record=True) as wl:
                warnings.simplefilter("always")
                try:
                    data = load_one(path, norm_threshold=thr)
                    exc = None
                except LoadError as e:
                    data, exc = None, e
                except Exception as e:  # noqa: BLE001
                    part.violation("exception", f"{vendor}:raises-{type(e).__name__}", info, repr(e))
                    continue
            corrections = [str(w.message) for w in wl if issubclass(w.category, LoadWarning) and "Corrected" in str(w.message)]
            sigbase = f"{vendor}:{other['container'].split('-')[0]}"
            shell_tag = "+".join(info["shells"])
            if other["corruption"] == "norm-off-within-threshold":
                # norms deviate by thr/3: every vendor branch must judge it with the caller's threshold and accept the file
                part.outcome("within-threshold", "loaded" if exc is None else "REJECTED")
                if exc is not None:
                    part.violation("load", f"{sigbase}:rejected-although-within-norm_threshold", info,
                                   f"{shell_tag} written as {vendor}: orbital norms deviate by {thr / 3:.1e} (norm_threshold={thr}), yet: {str(exc)[:150]}")
                continue
            if other["corruption"] != "none":
                if exc is not None:
                    part.outcome("corrupted", "LoadError")
                    continue
                gl = common.plain(data.obasis)
                s_ret = gto.overlap(gl, data.obasis.conventions, data.atcoords)
                norms = np.einsum("ai,ab,bi->i", data.mo.coeffs, s_ret, data.mo.coeffs)
                ok = np.abs(norms - 1).max() <= thr * 1.01 + 1e-9
                part.outcome("corrupted", "loaded-normalised-within-threshold" if ok else "LOADED-UNNORMALISED")
                if not ok:
                    part.violation("corrupted", f"{sigbase}:corrupted-file-loaded:{other['corruption']}", info,
                                   f"{shell_tag} {vendor} [{other['corruption']}]: loaded although orbital norms deviate by {np.abs(norms - 1).max():.2e} > threshold {thr}")
                continue
            if exc is not None:
                part.outcome("load", "LoadError")
                part.violation("load", f"{sigbase}:rejected:{shell_tag}", info, f"{shell_tag} written as {vendor} in {other['container']} ({other['mo']}, thr {thr}): rejected: {str(exc)[:150]}")
                continue
            # (2)/(3) warning iff the encoding differs from the standard one on this basis
            if differs and not corrections:
                part.violation("warning", f"{sigbase}:no-LoadWarning:{shell_tag}", info, f"{shell_tag} {vendor}: corrected silently (no LoadWarning names a correction)")
            if not differs and corrections:
                part.violation("warning", f"{sigbase}:spurious-correction:{shell_tag}", info, f"{shell_tag} standard-conforming file: {corrections}")
            part.outcome("load", "loaded" + ("+warning" if corrections else ""))
            # (1) same orbitals as functions of space, orthonormal w.r.t. the returned basis
            gl = common.plain(data.obasis)
            vals = gto.eval_orbitals(data.mo.coeffs, gto.eval_basis(gl, data.obasis.conventions, data.atcoords, pts))
            # coordinates in angstrom pass through a CODATA-dependent factor (1e-9 relative between CODATA releases)
            tol = 1e-9 * np.abs(truth).max() + 1e-9 + {"molekel": 2e-7, "molden-angs": 3e-8}.get(other["container"], 0.0)
            if vals.shape != truth.shape or np.abs(vals - truth).max() > tol:
                i, p = (0, 0) if vals.shape != truth.shape else np.unravel_index(np.abs(vals - truth).argmax(), truth.shape)
                part.violation("wavefunction", f"{sigbase}:wrong-orbitals:{shell_tag}", info,
                               f"{shell_tag} written as {vendor} in {other['container']}: orbital {i} at point {p}: true {truth[i, p] if vals.shape == truth.shape else None!r}, loaded {vals[i, p] if vals.shape == truth.shape else vals.shape!r}; corrections: {corrections}")
                continue
            s_ret = gto.overlap(gl, data.obasis.conventions, data.atcoords)
            na = data.mo.norba
            blocks = [data.mo.coeffs] if data.mo.kind == "restricted" else [data.mo.coeffs[:, :na], data.mo.coeffs[:, na:]]
            for blk in blocks:
                dev = np.abs(blk.T @ s_ret @ blk - np.eye(blk.shape[1])).max()
                if dev > 1e-7:
                    part.violation("wavefunction", f"{sigbase}:not-orthonormal:{shell_tag}", info, f"{shell_tag} {vendor}: loaded orbitals deviate from orthonormality by {dev:.2e} w.r.t. the returned basis")
            part.outcome("wavefunction", "true-orbitals")
    finally:
        shutil.rmtree(tmp, ignore_errors=True)
    return part.result()


def corpus_anchor(ctx):
    """The vendor files of the corpus must be classified as their name says and be orthonormal under the reference overlap."""
    from iodata import load_one
    from iodata.utils import LoadWarning
    from mc.core import CORPUS

    # files written by Molden/Molpro conform to the standard; the others are known to need *some* correction
    # (which one is left open: on a given basis several documented quirks coincide)
    expect = {"nh3_molden_pure.molden": None, "nh3_molden_cart.molden": None, "nh3_molpro2012.molden": None, "nh3_orca.molden": "Corrected", "nh3_psi4.molden": "Corrected",
              "nh3_psi4_1.0.molden": "Corrected", "nh3_turbomole.molden": "Corrected", "h2o_ccpvdz_cfour.molden": "Corrected", "h2o_psi4_1.3.2_6-31G_d_cart.molden": "Corrected", "h2_sto3g.mkl": "Corrected"}
    for fn, tag in expect.items():
        if not (CORPUS / fn).exists():
            continue
        ctx.count()
        ctx.nontrivial(("corpus", fn))
        with warnings.catch_warnings(record=True) as wl:
            warnings.simplefilter("always")
            d = load_one(str(CORPUS / fn))
        msgs = [str(w.message) for w in wl if issubclass(w.category, LoadWarning) and "Corrected" in str(w.message)]
        ok = (tag is None and not msgs) or (tag is not None and any(tag in m for m in msgs))
        s = gto.overlap(common.plain(d.obasis), d.obasis.conventions, d.atcoords)
        c = d.mo.coeffs if d.mo.kind == "restricted" else d.mo.coeffs[:, : d.mo.norba]
        dev = np.abs(np.einsum("ai,ab,bi->i", c, s, c) - 1).max()
        ctx.outcome("corpus-anchor", "as-named" if ok and dev < 1e-4 else "WRONG")
        if not ok:
            ctx.violation("corpus", f"corpus:{fn}:classification", {"file": fn}, f"{fn}: expected correction {tag!r}, warnings {msgs}")
        if dev >= 1e-4:
            ctx.violation("corpus", f"corpus:{fn}:not-normalised", {"file": fn}, f"{fn}: orbital norms deviate by {dev:.2e} under the reference overlap")


def run(ctx):
    from mc.pool import pmap

    lmax = 5 if ctx.thorough else 3
    sets = shell_sets(lmax)
    if not ctx.thorough:
        # the sign/normalisation tables of g and h shells are vendor specific: a few such sets also in the quick tier
        sets += [((1, "c"), (4, "p")), ((0, "c"), (5, "p")), ((1, "c"), (4, "p"), (5, "p")), ((0, "c"), (4, "c"))]
    k = 2 if ctx.thorough else 1
    others = list(dbe.cases(OTHER, k))
    jobs = []
    for ss in sets:
        for vendor in vendors.VENDORS:
            if not all(vendors.allowed(vendor, l, kd) for l, kd in ss):
                continue
            heavy = max(l for l, _ in ss) >= 4
            for o in others:
                if heavy and len(dbe.deviations(OTHER, o)) > 1:
                    continue
                if o["container"] == "molekel" and any(l == 5 for l, _ in ss):
                    continue
                jobs.append((ss, vendor, o))
            if not heavy or ctx.thorough:
                # primitive order x distance as a full product (the normalisation check depends on screened overlaps)
                base = {n: m[0] for n, m in OTHER}
                o = dict(base, primitive_order="increasing-tight-last", geometry="stretched")
                if o not in others:
                    jobs.append((ss, vendor, o))
    jobs.sort(key=lambda j: -sum((l + 1) ** 3 for l, _ in j[0]))
    pmap(ctx, worker, jobs, chunk=4)
    corpus_anchor(ctx)
    ctx.cov.update(shell_sets=len(sets), vendors=list(vendors.VENDORS), lmax=lmax, other_axes_k=k, jobs=len(jobs))
    ctx.exhaustive = True
    ctx.rule = (
        f"full product of every non-empty subset of angular momenta 0..{lmax} (each l>=2 Cartesian or pure) x the 7 encodings (standard, ORCA, PSI4<=1.0, Turbomole, CFOUR 2.1, unnormalised contractions, "
        f"PSI4<=1.3.2; only shell types the vendor quirk covers) x deviation-bounded (k<={k}) variation of container {{Molden AU, Molden Angs, Molekel}}, orbitals {{restricted, unrestricted}}, "
        "norm_threshold {1e-4,1e-3,1e-6}, primitive order {decreasing, increasing, increasing with a 10x tighter third primitive}, geometry {bonded, stretched} (these two also combined), corruption {none, one orbital norm off by a third of norm_threshold (must still load), one primitive scaled, one MO coefficient perturbed, two vendors mixed, sign of one coefficient}; files are produced by independent writers and "
        "encoders (ref/vendors.py) from a true wavefunction with a complete orthonormal orbital set; loaded orbitals are compared with the truth at 10 probe points via ref/gto.py. Corpus vendor files anchor the encoders."
    )
    ctx.assumptions += ["the encoders restate the quirks as iodata documents them (inverse of the documented corrections)",
                        "when two encodings coincide on a basis any correction label is accepted; the wavefunction decides",
                        "a corrupted file may load only if its orbitals are normalised within norm_threshold w.r.t. the returned basis"]


def replay(ctx, payload):
    case = payload["case"]
    ss = tuple((vendors.ANGMOM.index(x[0]), x[1]) for x in case["shells"])
    other = {n: case[n] for n, _ in OTHER}
    res = worker([(ss, case["vendor"], other)], payload.get("seed", 0), "quick")
    for v in res["violations"]:
        ctx.violation(v["clause"], v["sig"], v["case"], v["detail"])
