"""C15 - after one save/reload cycle further cycles change nothing (conversion chains of depth 3)."""

from __future__ import annotations

from mc import dbe
from props import roundtrip

FULL_PRODUCT_LIMIT = 7000  # thorough tier: formats whose whole case space has at most this many points are enumerated completely
LEVEL = "model_checking"


def jobs(ctx, mode):
    specs = roundtrip.all_specs()
    k = 3 if ctx.thorough else 2
    out = []
    for name, spec in specs.items():
        for case in dbe.cases(spec.space, k):
            nat = case.get("natom", 0)
            ndev = len(dbe.deviations(spec.space, case))
            if nat and nat >= 9999 and ndev > (2 if ctx.thorough else 1):
                continue  # the largest systems only in combination with at most one (thorough: two) other deviation
            out.append((mode, name, case))
    if ctx.thorough:
        # formats with a small space: the full product of all axes (systems of >= 9999 atoms stay deviation-bounded)
        import itertools
        import math

        for name, spec in specs.items():
            if math.prod(len(m) for _, m in spec.space) > FULL_PRODUCT_LIMIT:
                continue
            seen = {repr(sorted(c.items(), key=str)) for m_, n_, c in out if n_ == name}
            for values in itertools.product(*[m for _, m in spec.space]):
                case = dict(zip([n for n, _ in spec.space], values))
                nat = case.get("natom", 0)
                if (nat and nat >= 9999) or repr(sorted(case.items(), key=str)) in seen:
                    continue
                out.append((mode, name, case))
    out.sort(key=lambda j: -int(j[2].get("natom", 0) or 0))
    return out, k, specs


def corpus_worker(chunk, seed, tier):
    """Corpus file -> every format that accepts the loaded object -> three cycles in that format."""
    import os
    import shutil
    import warnings

    from iodata import dump_one, load_one
    from mc.core import CORPUS, Part, make_scratch

    part = Part(seed, tier)
    specs = roundtrip.all_specs()
    tmp = make_scratch()
    try:
        for fn, infmt, name in chunk:
            spec = specs[name]
            with warnings.catch_warnings():
                warnings.simplefilter("ignore")
                try:
                    if fn.startswith("generated:"):
                        # an object in conventions / shell order other than the target's own: cycle 1 converts, later cycles must not
                        from props import wfn

                        _, conv, shellset, order = fn.split(":")
                        wcase = {n: m[0] for n, m in wfn.SPACE}
                        wcase.update(conventions=conv, shellset=shellset, shell_order=order)
                        x0, _ = wfn.build(wcase, name, seed)
                    else:
                        x0 = load_one(str(CORPUS / fn), fmt=infmt)
                except Exception:  # noqa: BLE001
                    continue
            if name == "json_qcschema" and "schema_name" not in x0.extra:
                continue
            path = str(tmp / spec.fname)
            objs, files = [x0], []
            ok = True
            for icycle in range(3):
                if os.path.exists(path):
                    os.remove(path)
                with warnings.catch_warnings():
                    warnings.simplefilter("ignore")
                    try:
                        dump_one(objs[-1], path, fmt=spec.fmt, allow_changes=True)
                    except Exception as exc:  # noqa: BLE001
                        if icycle > 0:
                            part.violation("cycle-dump", f"{name}:corpus:cycle{icycle + 1}-dump-fails", {"file": fn, "format": name}, f"{fn} -> {name}: cycle {icycle + 1} dump fails: {exc!r} caused by {exc.__cause__!r}")
                        ok = False
                        break
                    with open(path, "rb") as fh:
                        files.append(fh.read())
                    try:
                        objs.append(load_one(path, fmt=spec.fmt))
                    except Exception as exc:  # noqa: BLE001
                        if type(exc).__name__ == "LoadError" and icycle == 0:
                            part.outcome("corpus-chain", "first-reload-fails(judged by C01/C02)")
                        else:
                            part.violation("cycle-reload", f"{name}:corpus:cycle{icycle + 1}-reload-fails", {"file": fn, "format": name}, f"{fn} -> {name}: {exc!r}")
                        ok = False
                        break
            if not ok:
                continue
            part.count()
            part.nontrivial((fn, name))
            s1, s2, s3 = (roundtrip.snapshot(o) for o in objs[1:4])
            f2, f3 = files[1], files[2]
            if hasattr(spec, "cycle_filter"):
                s1, s2, s3 = (spec.cycle_filter(s) for s in (s1, s2, s3))
                f2, f3 = spec.file_filter(f2), spec.file_filter(f3)
            d12, d23 = roundtrip.first_difference(s1, s2), roundtrip.first_difference(s2, s3)
            ulp = False
            if d12 or d23:
                ok12, g12 = roundtrip.numeric_gap(s1, s2)
                ok23, g23 = roundtrip.numeric_gap(s2, s3)
                ulp = ok12 and ok23 and max(g12, g23) <= 4e-15
            info = {"file": fn, "format": name}
            if ulp:
                part.violation("object-drift", f"{name}:object-ulp-drift", info, f"{fn} -> {name}: reloaded objects differ in the last bits between cycles: {d12 or d23}")
                if f2 != f3:
                    part.violation("file-drift", f"{name}:file-ulp-drift", info, f"{fn} -> {name}: third file differs from second in last printed digits")
            elif d12 or d23:
                part.violation("object-drift", f"{name}:corpus:object-drifts", info, f"{fn} -> {name}: {'cycle 2 vs 1' if d12 else 'cycle 3 vs 2'}: {d12 or d23}")
            elif f2 != f3:
                part.violation("file-drift", f"{name}:corpus:file-drifts", info, f"{fn} -> {name}: third file differs from second")
            else:
                part.outcome("corpus-chain", "fixpoint-after-one-cycle")
            if len(part.samples) < 1:
                part.sample(info)
    finally:
        shutil.rmtree(tmp, ignore_errors=True)
    return part.result()


def run(ctx):
    import os

    from mc.core import CORPUS
    from mc.pool import pmap
    from props import c07

    js, k, specs = jobs(ctx, "c15")
    pmap(ctx, roundtrip.worker, js, chunk=8)
    roundtrip.minimise_and_merge(ctx, "c15")
    chains = []
    for origin, fn, infmt, text in c07.corpus_files():
        if len(text) > (20_000 if not ctx.thorough else 2_000_000):
            continue
        for name in specs:
            chains.append((fn, infmt, name))
    from props import wfn

    ngen = 0
    for conv in ("horton2", "wfn", "fchk", "molden", "cca", "scr1") if not ctx.thorough else dict(wfn.SPACE)["conventions"][1:]:
        for shellset in ("+d-cart", "+f-cart", "+d-pure", "+g-cart", "+f-pure") if not ctx.thorough else dict(wfn.SPACE)["shellset"]:
            for order in ("grouped", "interleaved") if not ctx.thorough else ("grouped", "interleaved", "reversed", "perm3"):
                for name in wfn.TARGETS:
                    chains.append((f"generated:{conv}:{shellset}:{order}", None, name))
                    ngen += 1
    pmap(ctx, corpus_worker, chains, chunk=8)
    ctx.cov["corpus_chains"] = len(chains) - ngen
    ctx.cov["generated_conversion_chains"] = ngen
    ctx.cov.update(formats=sorted(specs), dbe_k=k, cases=len(js), axes={n: [a for a, _ in s.space] for n, s in specs.items()})
    ctx.exhaustive = True
    ctx.rule = (
        f"per format, deviation-bounded enumeration k<={k} (thorough: additionally the full product of all axes for every format whose space has <= {FULL_PRODUCT_LIMIT} points) over the format's axes (atom counts crossing every field width, element sets, coordinate ranges, titles, bonds, "
        "optional attributes, grid shapes/values, matrix sizes); each case: build object, dump_one, load_one, compare every attribute the format stores (exact / digits-aware); "
        "violations are minimised to their smallest deviation set. Additionally every corpus file (<= 20 kB quick, all thorough) is converted to every format that accepts it and cycled three times, and so is a generated wavefunction in foreign conventions x shell set x shell order "
        "(6 x 5 x 2 quick; 9 x 13 x 4 thorough) for each of the five wavefunction formats (cycle 1 converts conventions and regroups shells, cycles 2 and 3 must be the identity). "
        "Distinct = (format, deviation set) / (corpus file, format)."
    )
    ctx.assumptions += ["tolerances are 0.6 unit in the last digit the format prints (typed per format in props/fmtspecs.py)", "multi-line titles are outside the stated domain"]


def replay(ctx, payload):
    case = dict(payload["case"])
    fname = case.pop("format")
    spec = roundtrip.all_specs()[fname]
    case = {n: roundtrip._restore(case[n], m) for n, m in spec.space}
    res = roundtrip.worker([("c15", fname, case)], payload.get("seed", 0), "quick")
    for v in res["violations"]:
        ctx.violation(v["clause"], v["sig"], v["case"], v["detail"])
