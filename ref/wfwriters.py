"""Independent writers for Gaussian FCHK, AIM WFN and WFX files (public layouts; no iodata import).

FCHK: 'A40,3X,A1,5X,I12' / 'A40,3X,A1,5X,E22.15' scalars, 'A40,3X,A1,3X,"N=",I12' array headers with 6I12 / 5E16.8 bodies;
symmetric matrices as the lower triangle row by row; quadrupole as XX YY ZZ XY XZ YZ; shell types 0 s, 1 p, -1 sp, 2 6d,
-2 5d, 3 10f, -3 7f, ...; functions inside a shell in Gaussian's order (typed below).
WFN: FORMAT statements of the AIMPAC description; primitive types by the AIMAll table (typed below).
"""

from __future__ import annotations

import numpy as np

from ref import periodic, units

# Gaussian's ordering inside a shell
FCHK_CONV = {
    (0, "c"): ["1"], (1, "c"): ["x", "y", "z"], (2, "c"): ["xx", "yy", "zz", "xy", "xz", "yz"],
    (3, "c"): ["xxx", "yyy", "zzz", "xyy", "xxy", "xxz", "xzz", "yzz", "yyz", "xyz"],
    (2, "p"): ["c0", "c1", "s1", "c2", "s2"], (3, "p"): ["c0", "c1", "s1", "c2", "s2", "c3", "s3"], (4, "p"): ["c0", "c1", "s1", "c2", "s2", "c3", "s3", "c4", "s4"],
}
# Cartesian g and higher in .fch files: x power ascending, then y power ascending (ZZZZ YZZZ YYZZ YYYZ YYYY XZZZ ... XXXX)
for _l in range(4, 8):
    FCHK_CONV[(_l, "c")] = ["x" * _a + "y" * _b + "z" * (_l - _a - _b) for _a in range(_l + 1) for _b in range(_l - _a + 1)]
    FCHK_CONV[(_l, "p")] = ["c0"] + [x for _m in range(1, _l + 1) for x in (f"c{_m}", f"s{_m}")]
# AIMAll / AIMPAC primitive type table (1-based codes)
WFN_TYPES = ["1", "x", "y", "z", "xx", "yy", "zz", "xy", "xz", "yz", "xxx", "yyy", "zzz", "xxy", "xxz", "yyz", "xyy", "xzz", "yzz", "xyz",
             "xxxx", "yyyy", "zzzz", "xxxy", "xxxz", "xyyy", "yyyz", "xzzz", "yzzz", "xxyy", "xxzz", "yyzz", "xxyz", "xyyz", "xyzz"]
# types 36-56 (h): ZZZZZ YZZZZ YYZZZ YYYZZ YYYYZ YYYYY XZZZZ XYZZZ XYYZZ XYYYZ XYYYY XXZZZ XXYZZ XXYYZ XXYYY XXXZZ XXXYZ XXXYY XXXXZ XXXXY XXXXX
WFN_TYPES += ["x" * _a + "y" * _b + "z" * (5 - _a - _b) for _a in range(6) for _b in range(6 - _a)]


def _ia(label, vals):
    vals = [int(v) for v in vals]
    out = [f"{label:<40s}   I   N={len(vals):12d}"]
    for k in range(0, len(vals), 6):
        out.append("".join(f"{v:12d}" for v in vals[k : k + 6]))
    return out


def _ra(label, vals):
    vals = [float(v) for v in np.asarray(vals, dtype=float).ravel()]
    out = [f"{label:<40s}   R   N={len(vals):12d}"]
    for k in range(0, len(vals), 5):
        out.append("".join(f"{v:16.8E}" for v in vals[k : k + 5]))
    return out


def _is(label, v):
    return [f"{label:<40s}   I     {int(v):12d}"]


def _rs(label, v):
    return [f"{label:<40s}   R     {float(v):22.15E}"]


def tril(m):
    m = np.asarray(m)
    return [m[i, j] for i in range(m.shape[0]) for j in range(i + 1)]


def fchk(model):
    """model: dict with keys title, command, lot, basis, z, cores, xyz, shells[(icenter, type, exps, coefs, spcoefs|None)], nalpha, nbeta,
    ea, ca (norb x nbasis), eb, cb (optional), and optional energy, masses_amu, density, spin_density, mulliken, gradient, hessian, dipole,
    quadrupole (xx,yy,zz,xy,xz,yz), polarizability, micopt."""
    m = model
    out = [m["title"], f"{m['command']:<10s}{m['lot']:<30s}{m['basis']:>30s}"]
    natom = len(m["z"])
    out += _is("Number of atoms", natom)
    out += _is("Charge", m.get("charge", 0))
    out += _is("Multiplicity", m["nalpha"] - m["nbeta"] + 1)
    out += _is("Number of electrons", m["nalpha"] + m["nbeta"])
    out += _is("Number of alpha electrons", m["nalpha"])
    out += _is("Number of beta electrons", m["nbeta"])
    nbasis = np.asarray(m["ca"]).shape[1]
    out += _is("Number of basis functions", nbasis)
    out += _is("Number of independent functions", np.asarray(m["ca"]).shape[0])
    out += _ia("Atomic numbers", m["z"])
    out += _ra("Nuclear charges", m["cores"])
    out += _ra("Current cartesian coordinates", np.asarray(m["xyz"]).ravel())
    if m.get("micopt") is not None:
        out += _ia("MicOpt", m["micopt"])
    if m.get("masses_amu") is not None:
        out += _ia("Integer atomic weights", np.round(m["masses_amu"]))
        out += _ra("Real atomic weights", m["masses_amu"])
    shells = m["shells"]
    out += _ia("Shell types", [s[1] for s in shells])
    out += _ia("Number of primitives per shell", [len(s[2]) for s in shells])
    out += _ia("Shell to atom map", [s[0] + 1 for s in shells])
    out += _ra("Primitive exponents", [e for s in shells for e in s[2]])
    out += _ra("Contraction coefficients", [c for s in shells for c in s[3]])
    if any(s[1] == -1 for s in shells):
        out += _ra("P(S=P) Contraction coefficients", [c for s in shells for c in (s[4] if s[4] is not None else [0.0] * len(s[2]))])
    out += _ra("Coordinates of each shell", [x for s in shells for x in m["xyz"][s[0]]])
    if m.get("energy") is not None:
        out += _rs("SCF Energy", m["energy"])
        out += _rs("Total Energy", m["energy"])
    out += _ra("Alpha Orbital Energies", m["ea"])
    out += _ra("Alpha MO coefficients", np.asarray(m["ca"]).ravel())
    if m.get("cb") is not None:
        out += _ra("Beta Orbital Energies", m["eb"])
        out += _ra("Beta MO coefficients", np.asarray(m["cb"]).ravel())
    if m.get("density") is not None:
        out += _ra("Total SCF Density", tril(m["density"]))
    if m.get("spin_density") is not None:
        out += _ra("Spin SCF Density", tril(m["spin_density"]))
    if m.get("mulliken") is not None:
        out += _ra("Mulliken Charges", m["mulliken"])
    if m.get("gradient") is not None:
        out += _ra("Cartesian Gradient", np.asarray(m["gradient"]).ravel())
    if m.get("hessian") is not None:
        out += _ra("Cartesian Force Constants", tril(m["hessian"]))
    if m.get("dipole") is not None:
        out += _ra("Dipole Moment", m["dipole"])
    if m.get("quadrupole") is not None:
        out += _ra("Quadrupole Moment", m["quadrupole"])
    if m.get("polarizability") is not None:
        out += _ra("Polarizability", tril(m["polarizability"]))
    return "\n".join(out) + "\n"


def fchk_functions(shells):
    """[(icenter, l, kind)] per contraction in basis-function order, for the reference evaluator."""
    out = []
    for ic, t, exps, coefs, sp in shells:
        if t == -1:
            out.append((ic, [0, 1], ["c", "c"], exps, [[a, b] for a, b in zip(coefs, sp)]))
        else:
            out.append((ic, [abs(t)], ["p" if t < -1 else "c"], exps, [[c] for c in coefs]))
    return out


# ---- WFN ----------------------------------------------------------------------------------------------------

def powers(label):
    return (0, 0, 0) if label == "1" else (label.count("x"), label.count("y"), label.count("z"))


def _sect(head, skip, vals, fmt, per):
    out = []
    vals = list(vals)
    for k in range(0, len(vals), per):
        out.append(f"{head:<{skip}s}" + "".join(fmt(v) for v in vals[k : k + per]))
    return out


def _d(v, w, d):
    return f"{v:{w}.{d}E}".replace("E", "D")


def wfn(title, z, xyz, prims, mos, energy, virial, mospin=None, exp_d=True):
    """prims: [(icenter, type_code(1-based), exponent)], mos: [(number, occ, energy, [coefficient per primitive])]"""
    out = [f" {title}", f"GAUSSIAN        {len(mos):7d} MOL ORBITALS{len(prims):7d} PRIMITIVES{len(z):9d} NUCLEI"]
    for i, (zi, r) in enumerate(zip(z, xyz)):
        out.append(f"  {periodic.NUM2SYM[zi]:<3s}{i + 1:3d}    (CENTRE{i + 1:3d}) {r[0]:12.8f}{r[1]:12.8f}{r[2]:12.8f}  CHARGE ={float(zi):5.1f}")
    out += _sect("CENTRE ASSIGNMENTS", 20, [p[0] + 1 for p in prims], lambda v: f"{v:3d}", 20)
    out += _sect("TYPE ASSIGNMENTS", 20, [p[1] for p in prims], lambda v: f"{v:3d}", 20)
    out += _sect("EXPONENTS", 10, [p[2] for p in prims], (lambda v: _d(v, 14, 7)) if exp_d else (lambda v: f"{v:14.7E}"), 5)
    for num, occ, en, coefs in mos:
        out.append(f"MO{num:5d}     MO 0.0        OCC NO ={occ:13.7f}  ORB. ENERGY ={en:12.6f}")
        out += _sect("", 0, coefs, (lambda v: _d(v, 16, 8)) if exp_d else (lambda v: f"{v:16.8E}"), 5)
    out.append("END DATA")
    out.append(f" TOTAL ENERGY =  {energy:20.12f} THE VIRIAL(-V/T)={virial:13.8f}")
    if mospin is not None:
        out += [" $MOSPIN $END", "", ""]
        out += _sect("", 0, mospin, lambda v: f"{v:2d}", 40)
    return "\n".join(out) + "\n"


def wfx(title, z, cores, xyz, prims, mos, spins, energy, virial, nalpha, nbeta, charge, gradient=None, gradient_order=None):
    """gradient_order: the order in which the (name-labelled) gradient rows are printed; default = order of the nuclei."""

    def tag(name, lines):
        return [f"<{name}>"] + list(lines) + [f"</{name}>"]

    out = []
    out += tag("Title", [f" {title}"])
    out += tag("Keywords", [" GTO"])
    out += tag("Number of Nuclei", [f" {len(z)}"])
    out += tag("Number of Primitives", [f" {len(prims)}"])
    out += tag("Number of Occupied Molecular Orbitals", [f" {len(mos)}"])
    out += tag("Number of Perturbations", [" 0"])
    names = [f"{periodic.NUM2SYM[zi]}{i + 1}" for i, zi in enumerate(z)]
    out += tag("Nuclear Names", [f" {n}" for n in names])
    out += tag("Atomic Numbers", [f" {zi}" for zi in z])
    out += tag("Nuclear Charges", [f" {c:.14E}" for c in cores])
    out += tag("Nuclear Cartesian Coordinates", [" ".join(f"{v: .14E}" for v in r) for r in xyz])
    out += tag("Net Charge", [f" {charge:.14E}"])
    out += tag("Number of Electrons", [f" {nalpha + nbeta}"])
    out += tag("Number of Alpha Electrons", [f" {nalpha}"])
    out += tag("Number of Beta Electrons", [f" {nbeta}"])
    out += tag("Electronic Spin Multiplicity", [f" {nalpha - nbeta + 1}"])
    out += tag("Primitive Centers", [" ".join(f"{p[0] + 1:5d}" for p in prims[k : k + 5]) for k in range(0, len(prims), 5)])
    out += tag("Primitive Types", [" ".join(f"{p[1]:5d}" for p in prims[k : k + 5]) for k in range(0, len(prims), 5)])
    out += tag("Primitive Exponents", [" ".join(f"{p[2]: .14E}" for p in prims[k : k + 5]) for k in range(0, len(prims), 5)])
    out += tag("Molecular Orbital Occupation Numbers", [f" {m[1]:.14E}" for m in mos])
    out += tag("Molecular Orbital Energies", [f" {m[2]:.14E}" for m in mos])
    out += tag("Molecular Orbital Spin Types", [f" {s}" for s in spins])
    body = []
    for num, occ, en, coefs in mos:
        body += ["<MO Number>", f" {num}", "</MO Number>"]
        body += [" ".join(f"{c: .14E}" for c in coefs[k : k + 5]) for k in range(0, len(coefs), 5)]
    out += tag("Molecular Orbital Primitive Coefficients", body)
    out += tag("Energy = T + Vne + Vee + Vnn", [f" {energy:.14E}"])
    out += tag("Virial Ratio (-V/T)", [f" {virial:.14E}"])
    if gradient is not None:
        out += tag("Nuclear Cartesian Energy Gradients", [f" {n} " + " ".join(f"{v: .14E}" for v in g) for n, g in [(names[k], gradient[k]) for k in (gradient_order if gradient_order is not None else range(len(names)))]])
    return "\n".join(out) + "\n"


def eval_primitive_orbitals(xyz, prims, mos, points):
    """Orbital values from the primitive table exactly as the WFN/WFX formats define them (unnormalised primitives)."""
    points = np.asarray(points, dtype=float)
    vals = np.zeros((len(prims), len(points)))
    for k, (ic, code, alpha) in enumerate(prims):
        a, b, c = powers(WFN_TYPES[code - 1])
        d = points - np.asarray(xyz[ic])
        vals[k] = d[:, 0] ** a * d[:, 1] ** b * d[:, 2] ** c * np.exp(-alpha * (d * d).sum(axis=1))
    return np.array([np.asarray(m[3]) @ vals for m in mos])


# ---- MWFN (Multiwfn wavefunction file; T. Lu, "mwfn: a strict, concise and extensible format", 2020) -----------------------
def mwfn(model):
    """Same model dictionary as `fchk` (shell type codes and the order of functions inside a shell are those of .fch files,
    as the format description states); coordinates are printed in angstrom.  Keys used: title (unused by the format),
    z, cores, xyz (bohr), shells, nalpha, nbeta, ea, ca, [eb, cb], energy, virial, wfntype (0 RHF, 1 UHF, 2 ROHF),
    occs (per listed orbital), optional density (total), syms."""
    m = model
    natom = len(m["z"])
    shells = m["shells"]
    ca = np.asarray(m["ca"])
    nb = ca.shape[1]
    nprims = sum(len(s[2]) * {0: 1, 1: 3, 2: 6, -2: 5, 3: 10, -3: 7, 4: 15, -4: 9, 5: 21, -5: 11}[s[1]] for s in shells)
    out = ["# Generated by Multiwfn", f"Wfntype= {m['wfntype']:3d}", f"Charge= {m.get('charge', 0.0):14.6f}", f"Naelec= {float(m['nalpha']):14.6f}", f"Nbelec= {float(m['nbeta']):14.6f}",
           f"E_tot= {m['energy']:15.8E}", f"VT_ratio= {m['virial']:11.8f}", "", "# Atom information", f"Ncenter= {natom:7d}", "$Centers"]
    for i, (zi, q, r) in enumerate(zip(m["z"], m["cores"], np.asarray(m["xyz"]) / units.angstrom)):
        out.append(f"{i + 1:6d} {periodic.NUM2SYM[zi]:<2s} {zi:3d} {q:5.1f} {r[0]:15.8f} {r[1]:15.8f} {r[2]:15.8f}")
    out += ["", "# Basis function information", f"Nbasis= {nb:11d}", f"Nindbasis= {ca.shape[0]:8d}", f"Nprims= {nprims:11d}", f"Nshell= {len(shells):11d}",
            f"Nprimshell= {sum(len(s[2]) for s in shells):7d}", "$Shell types"]
    out += ["".join(f"{s[1]:3d}" for s in shells[k : k + 25]) for k in range(0, len(shells), 25)]
    out.append("$Shell centers")
    out += ["".join(f"{s[0] + 1:8d}" for s in shells[k : k + 10]) for k in range(0, len(shells), 10)]
    out.append("$Shell contraction degrees")
    out += ["".join(f"{len(s[2]):4d}" for s in shells[k : k + 20]) for k in range(0, len(shells), 20)]

    def reals(vals):
        vals = [float(v) for v in vals]
        return ["".join(f"{v:16.8E}" for v in vals[k : k + 5]) for k in range(0, len(vals), 5)]

    out.append("$Primitive exponents")
    out += reals([e for s in shells for e in s[2]])
    out.append("$Contraction coefficients")
    out += reals([c for s in shells for c in s[3]])
    norb_total = ca.shape[0] * (2 if m["wfntype"] == 1 else 1)
    out += ["", f"# Orbital information ({'2*' if m['wfntype'] == 1 else ''}nindbasis orbitals)"]
    rows = [(0 if m["wfntype"] != 1 else 1, m["ea"][i], ca[i]) for i in range(ca.shape[0])]
    if m["wfntype"] == 1:
        rows += [(2, m["eb"][i], np.asarray(m["cb"])[i]) for i in range(ca.shape[0])]
    for i, (typ, en, coefs) in enumerate(rows):
        if m["wfntype"] == 2 and m["occs"][i] == 1.0:
            typ = 1  # singly occupied orbitals of an ROHF wavefunction are labelled alpha
        out += [" ", f"Index= {i + 1:9d}", f"Type= {typ}", f"Energy= {en:15.8E}", f"Occ= {m['occs'][i]:10.6f}", f"Sym= {m['syms'][i] if m.get('syms') else '?'}", "$Coeff"]
        out += reals(coefs)
    assert len(rows) == norb_total
    out += ["", "# Various matrices", ""]
    if m.get("density") is not None:
        out.append(f"$Total density matrix, dim= {nb:4d} {nb:4d}  lower= 1")
        out += reals(tril(m["density"]))
        out.append("")
    return "\n".join(out) + "\n"
