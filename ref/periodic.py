"""Element symbols typed by hand (IUPAC 2016 table), independent of iodata.periodic."""

SYMBOLS = (
    "H He Li Be B C N O F Ne Na Mg Al Si P S Cl Ar K Ca Sc Ti V Cr Mn Fe Co Ni Cu Zn Ga Ge As Se Br Kr "
    "Rb Sr Y Zr Nb Mo Tc Ru Rh Pd Ag Cd In Sn Sb Te I Xe Cs Ba La Ce Pr Nd Pm Sm Eu Gd Tb Dy Ho Er Tm Yb Lu "
    "Hf Ta W Re Os Ir Pt Au Hg Tl Pb Bi Po At Rn Fr Ra Ac Th Pa U Np Pu Am Cm Bk Cf Es Fm Md No Lr "
    "Rf Db Sg Bh Hs Mt Ds Rg Cn Nh Fl Mc Lv Ts Og"
).split()
assert len(SYMBOLS) == 118
NUM2SYM = {i + 1: s for i, s in enumerate(SYMBOLS)}
SYM2NUM = {s: i + 1 for i, s in enumerate(SYMBOLS)}

# SDF / MOL2 bond type codes (CTfile bond types 1-8, Tripos MOL2 extras)
BOND_SDF = {1: "1", 2: "2", 3: "3", 4: "ar", 5: "sd", 6: "sar", 7: "dar", 8: "un"}
BOND_MOL2 = {"1": 1, "2": 2, "3": 3, "ar": 4, "am": 9, "du": 10, "nc": 11, "un": 8}
