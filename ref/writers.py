"""Independent writers following the public format descriptions (no iodata import).

All inputs are in atomic units; each writer converts to the unit its format prescribes with the hand-typed
CODATA factors of ref/units.py and lays the numbers out in the columns of the format specification.
"""

from __future__ import annotations

import numpy as np

from ref import periodic, units

ANG = units.angstrom


def sym(z):
    return periodic.NUM2SYM[int(z)]


# ---- XYZ / extended XYZ --------------------------------------------------------------------------------

def xyz(z, xyz_bohr, title="", as_numbers=False):
    out = [f"{len(z)}", title]
    for zi, r in zip(z, xyz_bohr / ANG):
        lab = str(int(zi)) if as_numbers else sym(zi)
        out.append(f"{lab:<3s} {r[0]:18.10f} {r[1]:18.10f} {r[2]:18.10f}")
    return "\n".join(out) + "\n"


def extxyz(z, xyz_bohr, cell_bohr=None, energy=None, charge=None, masses_au=None, forces=None, extra_title="", species_as_z=False, extra_cols=None):
    props = ["Z:I:1" if species_as_z else "species:S:1", "pos:R:3"]
    if masses_au is not None:
        props.append("masses:R:1")
    if forces is not None:
        props.append("force:R:3")
    for name, (dtype, ncol, _vals) in (extra_cols or {}).items():
        props.append(f"{name}:{dtype}:{ncol}")
    title = []
    if cell_bohr is not None:
        title.append('Lattice="' + " ".join(f"{v:.10f}" for v in (cell_bohr / ANG).ravel()) + '"')
    title.append("Properties=" + ":".join(props))
    if energy is not None:
        title.append(f"energy={energy!r}")
    if charge is not None:
        title.append(f"charge={charge!r}")
    if extra_title:
        title.append(extra_title)
    out = [str(len(z)), " ".join(title)]
    for i, (zi, r) in enumerate(zip(z, xyz_bohr / ANG)):
        words = [str(int(zi)) if species_as_z else sym(zi), f"{r[0]:.10f}", f"{r[1]:.10f}", f"{r[2]:.10f}"]
        if masses_au is not None:
            words.append(f"{masses_au[i] / units.amu:.8f}")
        if forces is not None:
            words += [f"{v:.10f}" for v in forces[i]]
        for name, (dtype, ncol, vals) in (extra_cols or {}).items():
            row = np.atleast_1d(vals[i])
            words += [("T" if v else "F") if dtype == "L" else str(v) for v in row]
        out.append(" ".join(words))
    return "\n".join(out) + "\n"


# ---- PDB (wwPDB 3.3 column table) -----------------------------------------------------------------------

def pdb(z, xyz_bohr, title=None, names=None, resnames=None, resnums=None, chains=None, occ=None, bfac=None, bonds=None, serial0=1, hetatm=False, compnd=None, end=True):
    out = []
    if title is not None:
        out.append(f"TITLE     {title}")
    if compnd is not None:
        out.append(f"COMPND    {compnd}")
    n = len(z)
    for i in range(n):
        r = xyz_bohr[i] / ANG
        name = names[i] if names is not None else sym(z[i]).upper()
        rec = "HETATM" if hetatm else "ATOM  "
        line = (
            f"{rec}{(serial0 + i) % 100000:5d} {name:<4s} {(resnames[i] if resnames is not None else 'MOL'):>3s} {(chains[i] if chains is not None else 'A'):1s}"
            f"{(resnums[i] if resnums is not None else 1):4d}    {r[0]:8.3f}{r[1]:8.3f}{r[2]:8.3f}{(occ[i] if occ is not None else 1.0):6.2f}{(bfac[i] if bfac is not None else 0.0):6.2f}"
            f"          {sym(z[i]).upper() if len(sym(z[i])) == 1 else sym(z[i]):>2s}"
        )
        out.append(line)
    if bonds:
        nb = {}
        for i, j in bonds:
            nb.setdefault(i, []).append(j)
            nb.setdefault(j, []).append(i)
        for i in sorted(nb):
            js = nb[i]
            for k in range(0, len(js), 4):
                out.append("CONECT" + f"{serial0 + i:5d}" + "".join(f"{serial0 + j:5d}" for j in js[k : k + 4]))
    if end:
        out.append("END")
    return "\n".join(out) + "\n"


# ---- Tripos MOL2 ----------------------------------------------------------------------------------------

def mol2(z, xyz_bohr, title="molecule", charges=None, attypes=None, bonds=None, names=None):
    nb = len(bonds) if bonds else 0
    out = ["@<TRIPOS>MOLECULE", title, f"{len(z):5d} {nb:5d}     1     0     0", "SMALL", "USER_CHARGES" if charges is not None else "NO_CHARGES", "", "@<TRIPOS>ATOM"]
    for i in range(len(z)):
        r = xyz_bohr[i] / ANG
        name = names[i] if names is not None else f"{sym(z[i])}{i + 1}"
        t = attypes[i] if attypes is not None else sym(z[i])
        q = charges[i] if charges is not None else 0.0
        out.append(f"{i + 1:7d} {name:<8s} {r[0]:10.4f} {r[1]:10.4f} {r[2]:10.4f} {t:<6s} {1:4d} RES1  {q:10.4f}")
    if bonds:
        out.append("@<TRIPOS>BOND")
        for k, (i, j, t) in enumerate(bonds):
            out.append(f"{k + 1:6d} {i + 1:5d} {j + 1:5d} {t:>4s}")
    return "\n".join(out) + "\n"


# ---- MDL SDF (CTfile V2000: aaabbblllfffcccsssxxxrrrpppiiimmmvvvvvv) -----------------------------------------

def sdf(z, xyz_bohr, title="", bonds=None, comment=""):
    nb = len(bonds) if bonds else 0
    out = [title, "  verif-writer", comment, f"{len(z):3d}{nb:3d}  0  0  0  0  0  0  0  0999 V2000"]
    for zi, r in zip(z, xyz_bohr / ANG):
        out.append(f"{r[0]:10.4f}{r[1]:10.4f}{r[2]:10.4f} {sym(zi):<3s} 0  0  0  0  0  0  0  0  0  0  0  0")
    for i, j, t in bonds or []:
        out.append(f"{i + 1:3d}{j + 1:3d}{t:3d}  0  0  0  0")
    out += ["M  END", "$$$$"]
    return "\n".join(out) + "\n"


# ---- GROMACS gro: "%5d%-5s%5s%5d%8.3f%8.3f%8.3f%8.4f%8.4f%8.4f" --------------------------------------------------

def gro(xyz_bohr, title="system", time_au=None, resnums=None, resnames=None, atnames=None, vel_au=None, cell_bohr=None):
    n = len(xyz_bohr)
    head = title if time_au is None else f"{title}, t= {time_au / units.picosecond:.5f}"
    out = [head, f"{n:5d}"]
    for i in range(n):
        r = xyz_bohr[i] / units.nanometer
        line = f"{(resnums[i] if resnums is not None else 1) % 100000:5d}{(resnames[i] if resnames is not None else 'SOL'):<5s}{(atnames[i] if atnames is not None else 'X'):>5s}{(i + 1) % 100000:5d}{r[0]:8.3f}{r[1]:8.3f}{r[2]:8.3f}"
        v = (vel_au[i] if vel_au is not None else np.zeros(3)) / (units.nanometer / units.picosecond)
        line += f"{v[0]:8.4f}{v[1]:8.4f}{v[2]:8.4f}"
        out.append(line)
    c = (cell_bohr if cell_bohr is not None else np.eye(3) * 10 * units.nanometer) / units.nanometer
    # v1(x) v2(y) v3(z) v1(y) v1(z) v2(x) v2(z) v3(x) v3(y)
    vals = [c[0, 0], c[1, 1], c[2, 2], c[0, 1], c[0, 2], c[1, 0], c[1, 2], c[2, 0], c[2, 1]]
    if all(abs(v) < 1e-12 for v in vals[3:]):
        vals = vals[:3]
    out.append("".join(f"{v:10.5f}" for v in vals))
    return "\n".join(out) + "\n"


# ---- CHARMM CRD (standard: I5,I5,1X,A4,1X,A4,3F10.5,1X,A4,1X,A4,F10.5) ----------------------------------------------

def crd(xyz_bohr, title="title", resnums=None, resnames=None, attypes=None, segids=None, resids=None, weights=None):
    n = len(xyz_bohr)
    out = [f"* {title}", "*", f"{n:5d}"]
    for i in range(n):
        r = xyz_bohr[i] / ANG
        out.append(
            f"{i + 1:5d}{(resnums[i] if resnums is not None else 1):5d} {(resnames[i] if resnames is not None else 'RES'):<4s} {(attypes[i] if attypes is not None else 'X'):<4s}"
            f"{r[0]:10.5f}{r[1]:10.5f}{r[2]:10.5f} {(segids[i] if segids is not None else 'SEG'):<4s} {str(resids[i] if resids is not None else 1):<4s}{(weights[i] if weights is not None else 0.0):10.5f}"
        )
    return "\n".join(out) + "\n"


# ---- VASP 5 POSCAR / CHGCAR / LOCPOT ----------------------------------------------------------------------

def poscar(z, xyz_bohr, cell_bohr, title="vasp", scale=1.0, direct=True, selective=False, grid=None, grid_kind=None, mode_word=None):
    """mode_word: the coordinate-mode line; VASP looks at its first character only (C, c, K, k: Cartesian; anything else: direct)."""
    order = []
    groups = []
    for zi in z:
        if zi not in groups:
            groups.append(zi)
    for g in groups:
        order += [i for i, zi in enumerate(z) if zi == g]
    out = [title, f"   {scale:.14f}"]
    for row in cell_bohr / ANG / scale:
        out.append(f" {row[0]:21.16f} {row[1]:21.16f} {row[2]:21.16f}")
    out.append(" ".join(f"{sym(g):>4s}" for g in groups))
    out.append(" ".join(f"{sum(1 for zi in z if zi == g):4d}" for g in groups))
    if selective:
        out.append("Selective dynamics")
    out.append(mode_word or ("Direct" if direct else "Cartesian"))
    for i in order:
        r = np.linalg.solve(cell_bohr.T, xyz_bohr[i]) if direct else xyz_bohr[i] / ANG / scale
        out.append(f" {r[0]:19.16f} {r[1]:19.16f} {r[2]:19.16f}" + ("   T   T   T" if selective else ""))
    text = "\n".join(out) + "\n"
    if grid is not None:
        # grid in atomic units: density (electrons per bohr^3) for CHGCAR -> stored as rho * V_cell ; potential in hartree for LOCPOT -> eV
        vol = abs(np.linalg.det(cell_bohr))
        vals = grid * vol if grid_kind == "chgcar" else grid / units.electronvolt
        text += "\n" + f" {grid.shape[0]:4d} {grid.shape[1]:4d} {grid.shape[2]:4d}\n"
        flat = vals.ravel(order="F")  # x fastest
        lines = [" ".join(f"{v: .11E}" for v in flat[k : k + 5]) for k in range(0, len(flat), 5)]
        text += "\n".join(" " + ln for ln in lines) + "\n"
    return text, order


# ---- Gaussian cube ----------------------------------------------------------------------------------------

def cube(z, xyz_bohr, origin, axes, data, title="cube", cores=None, per_line=6):
    out = [title, "second comment line", f"{len(z):5d}{origin[0]:12.6f}{origin[1]:12.6f}{origin[2]:12.6f}"]
    for n, ax in zip(data.shape, axes):
        out.append(f"{n:5d}{ax[0]:12.6f}{ax[1]:12.6f}{ax[2]:12.6f}")
    for i, zi in enumerate(z):
        q = cores[i] if cores is not None else float(zi)
        out.append(f"{int(zi):5d}{q:12.6f}{xyz_bohr[i][0]:12.6f}{xyz_bohr[i][1]:12.6f}{xyz_bohr[i][2]:12.6f}")
    for ix in range(data.shape[0]):
        for iy in range(data.shape[1]):
            row = data[ix, iy]
            for k in range(0, len(row), per_line):
                out.append("".join(f"{v:13.5E}" for v in row[k : k + per_line]))
    return "\n".join(out) + "\n"


# ---- Gaussian input -----------------------------------------------------------------------------------------

def gaussian_input(z, xyz_bohr, title="title", link0=("%chk=x.chk",), route=("#p hf/sto-3g",), charge=0, mult=1):
    out = list(link0) + list(route) + ["", title, "", f"{charge} {mult}"]
    for zi, r in zip(z, xyz_bohr / ANG):
        out.append(f" {sym(zi):<2s} {r[0]:16.10f} {r[1]:16.10f} {r[2]:16.10f}")
    out += ["", ""]
    return "\n".join(out) + "\n"


# ---- Molpro FCIDUMP -------------------------------------------------------------------------------------------

def fcidump(one, two_phys, core, nelec, ms2, end="&END"):
    """two_phys[i,j,k,l] = <ij|kl> (physicists'); the file lists chemists' (ij|kl) = <ik|jl>."""
    n = one.shape[0]
    out = [f" &FCI NORB={n:3d},NELEC={nelec:2d},MS2={ms2:2d},", "  ORBSYM=" + ",".join("1" for _ in range(n)) + ",", "  ISYM=1,", f" {end}"]
    for i in range(n):
        for j in range(i + 1):
            for k in range(n):
                for l in range(k + 1):
                    if i * (i + 1) // 2 + j >= k * (k + 1) // 2 + l:
                        v = two_phys[i, k, j, l]
                        if v != 0.0:
                            out.append(f" {v:23.16E} {i + 1:3d} {j + 1:3d} {k + 1:3d} {l + 1:3d}")
    for i in range(n):
        for j in range(i + 1):
            if one[i, j] != 0.0:
                out.append(f" {one[i, j]:23.16E} {i + 1:3d} {j + 1:3d}   0   0")
    if core is not None:  # model Hamiltonians carry no core-energy line
        out.append(f" {core:23.16E}   0   0   0   0")
    return "\n".join(out) + "\n"


# ---- Gaussian log matrices ----------------------------------------------------------------------------------------

def _dfmt(v, width=14, dec=6):
    s = f"{v:{width}.{dec}E}".replace("E", "D")
    return s


def gaussian_log(nbasis, overlap=None, kinetic=None, potential=None, eri_chem=None):
    out = [" Entering Gaussian System", f"    NBasis ={nbasis:4d}  MinDer = 0  MaxDer = 0", ""]

    def matrix(head, m):
        out.append(head)
        for b in range(0, nbasis, 5):
            cols = list(range(b, min(b + 5, nbasis)))
            out.append("       " + "".join(f"{c + 1:14d}" for c in cols))
            for i in range(b, nbasis):
                out.append(f"{i + 1:7d}" + "".join(_dfmt(m[i, c]) for c in cols if c <= i))

    if overlap is not None:
        matrix(" *** Overlap *** ", overlap)
    if kinetic is not None:
        matrix(" *** Kinetic Energy *** ", kinetic)
    if potential is not None:
        matrix(" ***** Potential Energy ***** ", potential)
    if eri_chem is not None:
        out += [" *** Dumping Two-Electron integrals ***", " NBasis=%6d" % nbasis, " IDump=1", " Labels", " ....", " ....", " Dumping 2e integrals"]
        for i in range(nbasis):
            for j in range(i + 1):
                for k in range(i + 1):
                    for l in range(k + 1 if k < i else j + 1):
                        v = eri_chem[i, j, k, l]
                        out.append(f" I={i + 1:3d} J={j + 1:3d} K={k + 1:3d} L={l + 1:3d} Int={_dfmt(v, 20, 12)}")
        out.append(" Leave Link  302")
    out += [" Normal termination of Gaussian 09", ""]
    return "\n".join(out) + "\n"


# ---- GAMESS / PC GAMESS (Firefly) punch file (.dat): $DATA, per-step coordinates, $GRAD, $HESS, ATOMIC MASSES ---------
def gamess_punch(title, z, steps, hessian=None, approx_hessian=None, masses_amu=None, enuc=9.25):
    """steps: list of (xyz_bohr, energy, gradient|None); the last step is the final geometry.
    Fortran layouts as printed by GAMESS: $DATA atom card A10,F5.1,3F18.10; coordinate table 1X,A10,F5.1,3F15.10;
    $GRAD card A10,F5.0(printed 'Z.'),3E20.10; $HESS card I2,I3,1P5E15.8 with the row label printed modulo 100 and
    the card counter modulo 1000; masses 5F12.5."""
    symu = [sym(zi).upper() for zi in z]

    def hess_block(h, energy):
        out = [" $HESS", f"ENERGY IS {energy:19.10f} E(NUC) IS {enuc:19.10f}"]
        for i, row in enumerate(h):
            for k in range(0, len(row), 5):
                out.append(f"{(i + 1) % 100:2d}{(k // 5 + 1) % 1000:3d}" + "".join(f"{v:15.8E}" for v in row[k : k + 5]))
        out.append(" $END")
        return out

    out = ["$DATA", f"{title:<80s}", "C1       0"]
    for s, zi, r in zip(symu, z, steps[0][0] / ANG):
        out.append(f"{s:<10s}{float(zi):5.1f}" + "".join(f"{v:18.10f}" for v in r))
        out += ["   S          1", "     1         1.5000000000  1.00000000", "           "]
    out.append(" $END      ")
    for istep, (xyz_bohr, energy, grad) in enumerate(steps):
        out.append(f"-------------------- DATA FROM NSERCH={istep:4d} --------------------")
        out += [" COORDINATES OF SYMMETRY UNIQUE ATOMS (ANGS)", "   ATOM   CHARGE       X              Y              Z", " " + "-" * 60]
        for s, zi, r in zip(symu, z, xyz_bohr / ANG):
            out.append(f" {s:<10s}{float(zi):5.1f}" + "".join(f"{v:15.10f}" for v in r))
        out += [f"--- CLOSED SHELL ORBITALS --- GENERATED AT step {istep}", title, f"E(RHF)= {energy:19.10f}, E(NUC)= {enuc:15.10f}, 9 ITERS", " $VEC", " 1  1 1.00000000E+00", " $END"]
        if grad is not None:
            out += [" $GRAD", f"E={energy:20.10f}  GMAX={np.abs(grad).max():12.7f}  GRMS={np.sqrt((np.asarray(grad) ** 2).mean()):12.7f}"]
            for s, zi, g in zip(symu, z, grad):
                out.append(f"{s:<10s}{float(zi):5.0f}." + "".join(f"{v:20.10E}" for v in g))
            out.append(" $END")
        if approx_hessian is not None and istep == len(steps) - 1:
            out.append("CAUTION, APPROXIMATE HESSIAN!")
            out += hess_block(approx_hessian, energy)
    if hessian is not None:
        out += hess_block(hessian, steps[-1][1])
    if masses_amu is not None:
        out += ["----- START OF NORMAL MODES FOR -MOLPLT- PROGRAM -----", "ATOMIC MASSES"]
        out += ["".join(f"{m:12.5f}" for m in masses_amu[k : k + 5]) for k in range(0, len(masses_amu), 5)]
        out += ["MODE    1   FREQUENCY=   2.35182 (CM**-1)", "----- END OF NORMAL MODES FOR -MOLPLT- PROGRAM -----"]
    return "\n".join(out) + "\n"


# ---- ORCA output (the sections a geometry / energy / dipole reader needs; layout of ORCA 4 text output) -------------------
def orca_log(z, steps, dipole_au=None, masses=None):
    """steps: list of (xyz_bohr, scf_energies, final_energy); the last step is the final geometry of an optimisation."""
    out = ["", "                                 *****************", "                                 * O   R   C   A *", "                                 *****************", ""]
    for istep, (xyz_bohr, scf, final) in enumerate(steps):
        if len(steps) > 1:
            out += ["", f"                    *  GEOMETRY OPTIMIZATION CYCLE {istep + 1:3d}            *", ""]
        out += ["---------------------------------", "CARTESIAN COORDINATES (ANGSTROEM)", "---------------------------------"]
        for zi, r in zip(z, xyz_bohr / ANG):
            out.append(f"  {sym(zi):<2s}{r[0]:14.6f}{r[1]:12.6f}{r[2]:12.6f}")
        out += ["", "----------------------------", "CARTESIAN COORDINATES (A.U.)", "----------------------------", "  NO LB      ZA    FRAG     MASS         X           Y           Z"]
        for i, (zi, r) in enumerate(zip(z, xyz_bohr)):
            m = masses[i] if masses is not None else 2.0 * zi
            out.append(f"{i:4d} {sym(zi):<2s}{float(zi):10.4f}{0:5d}{m:10.3f}{r[0]:12.6f}{r[1]:12.6f}{r[2]:12.6f}")
        out += ["", "--------------", "SCF ITERATIONS", "--------------", "ITER       Energy         Delta-E        Max-DP      RMS-DP      [F,P]     Damp",
                "               ***  Starting incremental Fock matrix formation  ***"]
        prev = 0.0
        for k, e in enumerate(scf):
            out.append(f"{k:3d}{e:16.8f}{e - prev:16.10f}  0.000433  0.000433  0.001101  0.000179")
            prev = e
        out += ["", "               *****************************************************", f"               *           SCF CONVERGED AFTER {len(scf):3d} CYCLES          *",
                "               *****************************************************", "", "-------------------------   --------------------", f"FINAL SINGLE POINT ENERGY  {final:20.12f}",
                "-------------------------   --------------------", ""]
    if dipole_au is not None:
        out += ["-------------", "DIPOLE MOMENT", "-------------", "                                X             Y             Z",
                f"Electronic contribution:  {-1.0:12.5f}{0.5:14.5f}{0.25:14.5f}", f"Nuclear contribution   :  {1.0 + dipole_au[0]:12.5f}{-0.5 + dipole_au[1]:14.5f}{-0.25 + dipole_au[2]:14.5f}",
                "                        -----------------------------------------", f"Total Dipole Moment    :  {dipole_au[0]:12.5f}{dipole_au[1]:14.5f}{dipole_au[2]:14.5f}",
                "                        -----------------------------------------", f"Magnitude (a.u.)       :  {float(np.linalg.norm(dipole_au)):12.5f}", ""]
    out += ["                             ****ORCA TERMINATED NORMALLY****", ""]
    return "\n".join(out) + "\n"


# ---- Q-Chem output (sections a single-point job prints; layout of Q-Chem 5 text output) ------------------------------------
def qchem_log(z, xyz_bohr, rem, nalpha, nbeta, nbasis, energy, occ_a, vir_a, occ_b=None, vir_b=None, mulliken=None, dipole_debye=None, quadrupole_debye_ang=None, enuc=9.19775748):
    """rem: ordered dict of $rem keywords; orbital energies in rows of eight F8.4 values; quadrupole as XX XY YY XZ YZ ZZ."""
    out = ["                  Welcome to Q-Chem", "", "--------------------------------------------------------------", "User input:", "--------------------------------------------------------------",
           "$molecule", "0 1"] + [f"{sym(zi)} {r[0]:.10f} {r[1]:.10f} {r[2]:.10f}" for zi, r in zip(z, xyz_bohr / ANG)] + ["$end", "", "$rem"]
    out += [f"{k:<24s}{v}" for k, v in rem.items()] + ["$end", "--------------------------------------------------------------", " ----------------------------------------------------------------",
            "             Standard Nuclear Orientation (Angstroms)", "    I     Atom           X                Y                Z", " ----------------------------------------------------------------"]
    for i, (zi, r) in enumerate(zip(z, xyz_bohr / ANG)):
        out.append(f"{i + 1:5d}      {sym(zi):<2s}{r[0]:19.10f}{r[1]:17.10f}{r[2]:17.10f}")
    out += [" ----------------------------------------------------------------", f" Nuclear Repulsion Energy = {enuc:20.8f} hartrees", f" There are {nalpha:8d} alpha and {nbeta:8d} beta electrons",
            " Requested basis set is " + str(rem.get("basis", "sto-3g")), f" There are {max(1, nbasis // 3)} shells and {nbasis} basis functions", "", " Total QAlloc Memory Limit  96000 MB", "",
            " A restricted SCF calculation will be performed using DIIS", " SCF converges when DIIS error is below 1.0e-08", " ---------------------------------------", "  Cycle       Energy         DIIS error",
            " ---------------------------------------", f"    1 {energy + 0.5:18.10f}      4.39e-01", f"    2 {energy:18.10f}      6.02e-09", " ---------------------------------------",
            " SCF time:   CPU 0.30s  wall 0.00s", f" SCF   energy in the final basis set = {energy:18.10f}", f" Total energy in the final basis set = {energy:18.10f}", "",
            " --------------------------------------------------------------", "", "                    Orbital Energies (a.u.)", " --------------------------------------------------------------", ""]

    def rows(vals):
        return [" ".join(f"{v:8.4f}" for v in vals[k : k + 8]) for k in range(0, len(vals), 8)]  # 8(F8.4,1X)

    out += [" Alpha MOs", " -- Occupied --"] + rows(occ_a) + [" -- Virtual --"] + rows(vir_a)
    if occ_b is not None:
        out += ["", " Beta MOs", " -- Occupied --"] + rows(occ_b) + [" -- Virtual --"] + rows(vir_b)
    out += [" --------------------------------------------------------------", ""]
    if mulliken is not None:
        out += ["          Ground-State Mulliken Net Atomic Charges", "", "     Atom                 Charge (a.u.)", "  ----------------------------------------"]
        out += [f"{i + 1:7d} {sym(zi):<2s}{q:29.6f}" for i, (zi, q) in enumerate(zip(z, mulliken))]
        out += ["  ----------------------------------------", f"  Sum of atomic charges = {sum(mulliken):12.6f}", ""]
    if dipole_debye is not None:
        d, q = dipole_debye, quadrupole_debye_ang
        out += [" -----------------------------------------------------------------", "                    Cartesian Multipole Moments", " -----------------------------------------------------------------",
                "    Charge (ESU x 10^10)", "                 0.0000", "    Dipole Moment (Debye)", f"         X {d[0]:12.4f}      Y {d[1]:12.4f}      Z {d[2]:12.4f}",
                f"       Tot {float(np.linalg.norm(d)):12.4f}", "    Quadrupole Moments (Debye-Ang)", f"        XX {q[0]:12.4f}     XY {q[1]:12.4f}     YY {q[2]:12.4f}",
                f"        XZ {q[3]:12.4f}     YZ {q[4]:12.4f}     ZZ {q[5]:12.4f}", "    Octopole Moments (Debye-Ang^2)", "       XXX      -0.8647    XXY      -0.3834    XYY       0.0837",
                " -----------------------------------------------------------------", ""]
    out += ["        *************************************************************", "        *  Thank you very much for using Q-Chem.  Have a nice day.  *", "        *************************************************************", ""]
    return "\n".join(out) + "\n"
