"""Independent reference for contracted Gaussian basis functions (docs/basis.rst, taken literally).

Nothing in this package imports iodata.  A basis is plain data:

    shells      = [(icenter, [angmom,...], [kind,...], [exponent,...], coeffs[nexp][ncon]), ...]
    conventions = {(angmom, kind): [label, ...]}     labels as documented: '1', 'xxy', 'c2', '-s3'
    coords      = array (ncenter, 3)

Real regular solid harmonics are generated from the closed form
    C_lm / S_lm = sqrt(2 (l-m)!/(l+m)!) * Pi_l^m(z, r) * Re/Im (x+iy)^m,   C_l0 = Pi_l^0
    Pi_l^m = 2^-l sum_k (-1)^k C(l,k) C(2l-2k,l) (l-2k)!/(l-2k-m)! r^2k z^(l-2k-m)
in exact rational arithmetic (not from the recursion used by iodata's tools/harmonics.py).
Overlaps are integrated with Gauss-Hermite quadrature (30 nodes, exact to degree 59).
"""

from __future__ import annotations

import functools
import math
from fractions import Fraction

import numpy as np


def dfact(n):
    """Double factorial with (-1)!! = 1."""
    r = 1
    while n > 1:
        r *= n
        n -= 2
    return r


def cart_powers(l):
    """All (nx, ny, nz) with nx+ny+nz = l in a fixed (internal) order."""
    return [(a, b, l - a - b) for a in range(l, -1, -1) for b in range(l - a, -1, -1)]


def poly_mul(p, q):
    out = {}
    for (a, b, c), u in p.items():
        for (d, e, f), v in q.items():
            k = (a + d, b + e, c + f)
            out[k] = out.get(k, 0) + u * v
    return {k: v for k, v in out.items() if v != 0}


def poly_pow(p, n):
    out = {(0, 0, 0): Fraction(1)}
    for _ in range(n):
        out = poly_mul(out, p)
    return out


@functools.lru_cache(maxsize=None)
def solid_harmonic(l, m, kind):
    """(prefactor_squared: Fraction, polynomial: dict powers->Fraction) for C_lm (kind 'c') or S_lm ('s')."""
    r2 = {(2, 0, 0): Fraction(1), (0, 2, 0): Fraction(1), (0, 0, 2): Fraction(1)}
    pi = {}
    for k in range(0, (l - m) // 2 + 1):
        coef = Fraction((-1) ** k * math.comb(l, k) * math.comb(2 * l - 2 * k, l) * math.factorial(l - 2 * k), 2**l * math.factorial(l - 2 * k - m))
        term = poly_mul(poly_pow(r2, k), {(0, 0, l - 2 * k - m): coef})
        for key, v in term.items():
            pi[key] = pi.get(key, 0) + v
    # (x + i y)^m = sum_j C(m,j) x^(m-j) (i y)^j
    re, im = {}, {}
    for j in range(m + 1):
        c = Fraction(math.comb(m, j))
        key = (m - j, j, 0)
        if j % 4 == 0:
            re[key] = c
        elif j % 4 == 1:
            im[key] = c
        elif j % 4 == 2:
            re[key] = -c
        else:
            im[key] = -c
    if m == 0:
        assert kind == "c"
        return Fraction(1), pi
    pref2 = Fraction(2 * math.factorial(l - m), math.factorial(l + m))
    return pref2, poly_mul(pi, re if kind == "c" else im)


def parse_label(label):
    sign = 1
    while label.startswith("-"):
        sign = -sign
        label = label[1:]
    return sign, label


@functools.lru_cache(maxsize=None)
def function_vector(l, kind, label):
    """Coefficients of one (unnormalised) function over cart_powers(l), sign of the label included.

    Cartesian: a unit vector.  Pure: the solid harmonic polynomial times its prefactor.
    Returns (vector, is_pure).
    """
    sign, lab = parse_label(label)
    pw = cart_powers(l)
    vec = np.zeros(len(pw))
    if kind == "c":
        if lab == "1":
            powers = (0, 0, 0)
        else:
            if set(lab) - set("xyz"):
                raise ValueError(f"bad Cartesian label {label!r}")
            powers = (lab.count("x"), lab.count("y"), lab.count("z"))
        if sum(powers) != l:
            raise ValueError(f"label {label!r} is not of degree {l}")
        vec[pw.index(powers)] = sign
        return vec
    if kind != "p" or lab[0] not in "cs":
        raise ValueError(f"bad label {label!r} for kind {kind!r}")
    m = int(lab[1:])
    if m > l or (lab[0] == "s" and m == 0):
        raise ValueError(f"bad pure label {label!r} for l={l}")
    pref2, poly = solid_harmonic(l, m, lab[0])
    pref = math.sqrt(pref2)
    for key, v in poly.items():
        vec[pw.index(key)] = sign * pref * float(v)
    return vec


def cart_norm(alpha, nx, ny, nz):
    return math.sqrt((2 * alpha / math.pi) ** 1.5 * (4 * alpha) ** (nx + ny + nz) / (dfact(2 * nx - 1) * dfact(2 * ny - 1) * dfact(2 * nz - 1)))


def pure_norm(alpha, l):
    return math.sqrt((2 * alpha / math.pi) ** 1.5 * (4 * alpha) ** l / dfact(2 * l - 1))


def contraction_matrices(l, kind, labels, exponents):
    """For one contraction: list over primitives of matrices (nfunc, ncart) = normalisation * polynomial."""
    pw = cart_powers(l)
    vecs = np.array([function_vector(l, kind, lab) for lab in labels])
    mats = []
    for alpha in exponents:
        if kind == "c":
            norms = np.array([cart_norm(alpha, *p) for p in pw])
            mats.append(vecs * norms[None, :])
        else:
            mats.append(vecs * pure_norm(alpha, l))
    return mats


def expand(shells, conventions):
    """List of contractions: (icenter, l, exponents, coefficients, [matrix per primitive]) in basis-function order."""
    out = []
    for icenter, angmoms, kinds, exponents, coeffs in shells:
        coeffs = np.asarray(coeffs, dtype=float)
        exponents = [float(e) for e in exponents]
        for icon, (l, kind) in enumerate(zip(angmoms, kinds)):
            l = int(l)
            kind = str(kind)
            if kind == "p" and l < 2:
                raise ValueError("pure functions need l >= 2")
            labels = conventions[(l, kind)]
            want = (l + 1) * (l + 2) // 2 if kind == "c" else 2 * l + 1
            if len(labels) != want:
                raise ValueError(f"convention {(l, kind)} has {len(labels)} labels, expected {want}")
            out.append((int(icenter), l, exponents, coeffs[:, icon], contraction_matrices(l, kind, tuple(labels), tuple(exponents))))
    return out


def nbasis(shells):
    n = 0
    for _, angmoms, kinds, _, _ in shells:
        for l, k in zip(angmoms, kinds):
            n += (l + 1) * (l + 2) // 2 if k == "c" else 2 * l + 1
    return int(n)


def eval_basis(shells, conventions, coords, points):
    """Values of all basis functions at the points: array (nbasis, npoint)."""
    coords = np.asarray(coords, dtype=float)
    points = np.asarray(points, dtype=float)
    rows = []
    for icenter, l, exponents, coefs, mats in expand(shells, conventions):
        d = points - coords[icenter]
        r2 = (d * d).sum(axis=1)
        pw = cart_powers(l)
        mono = np.array([d[:, 0] ** a * d[:, 1] ** b * d[:, 2] ** c for a, b, c in pw])  # (ncart, npoint)
        block = 0.0
        for alpha, c, mat in zip(exponents, coefs, mats):
            block = block + c * (mat @ mono) * np.exp(-alpha * r2)[None, :]
        rows.append(block)
    return np.vstack(rows) if rows else np.zeros((0, len(points)))


def eval_orbitals(coeffs, basis_values):
    """coeffs (nbasis, norb) -> (norb, npoint)."""
    return np.asarray(coeffs).T @ basis_values


def density(dm, basis_values):
    return np.einsum("ab,ap,bp->p", np.asarray(dm), basis_values, basis_values)


_GH = np.polynomial.hermite.hermgauss(30)


def _one_d(a_center, b_center, alpha, beta, la, lb):
    """Table I[i, j] = int (x-A)^i (x-B)^j exp(-alpha (x-A)^2 - beta (x-B)^2) dx for i<=la, j<=lb."""
    p = alpha + beta
    pc = (alpha * a_center + beta * b_center) / p
    k = math.exp(-alpha * beta / p * (a_center - b_center) ** 2)
    t, w = _GH
    x = pc + t / math.sqrt(p)
    xa = x - a_center
    xb = x - b_center
    pa = np.array([xa**i for i in range(la + 1)])
    pb = np.array([xb**j for j in range(lb + 1)])
    return k / math.sqrt(p) * np.einsum("n,in,jn->ij", w, pa, pb)


def overlap(shells0, conventions0, coords0, shells1=None, conventions1=None, coords1=None, screen=None):
    """Reference overlap matrix (no screening).

    With ``screen`` (e.g. 1e-15) also returns a matrix bounding, per element, the absolute contributions of
    primitive pairs whose Gaussian prefactor exp(-ab/(a+b) R^2) is below ``screen`` (what a screening
    implementation is allowed to omit)."""
    e0 = expand(shells0, conventions0)
    c0 = np.asarray(coords0, dtype=float)
    if shells1 is None:
        e1, c1 = e0, c0
    else:
        e1 = expand(shells1, conventions1)
        c1 = np.asarray(coords1, dtype=float)
    n0 = sum(m[0].shape[0] for *_, m in e0)
    n1 = sum(m[0].shape[0] for *_, m in e1)
    out = np.zeros((n0, n1))
    slack = np.zeros((n0, n1))
    o0 = 0
    for ic0, l0, ex0, co0, m0 in e0:
        nf0 = m0[0].shape[0]
        pw0 = cart_powers(l0)
        o1 = 0
        for ic1, l1, ex1, co1, m1 in e1:
            nf1 = m1[0].shape[0]
            pw1 = cart_powers(l1)
            ia = np.array([p[0] for p in pw0]), np.array([p[1] for p in pw0]), np.array([p[2] for p in pw0])
            ib = np.array([p[0] for p in pw1]), np.array([p[1] for p in pw1]), np.array([p[2] for p in pw1])
            block = np.zeros((nf0, nf1))
            sblock = np.zeros((nf0, nf1))
            rr = float(((c0[ic0] - c1[ic1]) ** 2).sum())
            for a, ca, ma in zip(ex0, co0, m0):
                for b, cb, mb in zip(ex1, co1, m1):
                    tabs = [_one_d(c0[ic0][ax], c1[ic1][ax], a, b, l0, l1) for ax in range(3)]
                    scart = tabs[0][np.ix_(ia[0], ib[0])] * tabs[1][np.ix_(ia[1], ib[1])] * tabs[2][np.ix_(ia[2], ib[2])]
                    contrib = ca * cb * (ma @ scart @ mb.T)
                    block += contrib
                    if screen is not None and math.exp(-a * b / (a + b) * rr) < screen * (1 + 1e-9):
                        sblock += np.abs(contrib)
            out[o0 : o0 + nf0, o1 : o1 + nf1] = block
            slack[o0 : o0 + nf0, o1 : o1 + nf1] = sblock
            o1 += nf1
        o0 += nf0
    if screen is not None:
        return out, slack
    return out


def cart_to_pure_table(l, pure_labels, cart_labels, normalized=True):
    """Matrix expressing (L2-normalised) pure functions in (L2-normalised) Cartesian ones, for comparison with
    pre-computed transformation tables.  Exponent independent: N_pure/N_cart ratios cancel the exponent."""
    pw = cart_powers(l)
    vp = np.array([function_vector(l, "p", lab) for lab in pure_labels])
    vc = np.array([function_vector(l, "c", lab) for lab in cart_labels])  # permutation matrix rows
    # pure = sum_cart vp[cart] * monomial; monomial = normalized_cart / N_cart
    alpha = 1.0
    if normalized:
        norms = np.array([cart_norm(alpha, *p) for p in pw])
        vp = vp * pure_norm(alpha, l) / norms[None, :]
    # reorder columns to the requested Cartesian label order
    return vp @ vc.T


PROBE_POINTS = np.array(
    [
        [0.31, -0.27, 0.45], [-0.62, 0.18, 0.09], [0.11, 0.73, -0.38], [1.21, 0.42, 0.87], [-0.93, -1.14, 0.52],
        [0.57, -0.81, -1.33], [0.05, 0.02, 1.61], [1.73, -0.39, -0.21], [-0.44, 1.52, 0.66], [0.83, 0.91, 1.07],
        [-1.37, 0.29, -0.71], [0.23, -1.67, 0.35], [2.13, 1.09, -0.57], [-0.19, -0.53, -0.95],
    ]
)


def selftest():
    """Closed-form checks of this module (returns list of failures)."""
    bad = []
    docs_c20 = {(2, 0, 0): -0.5, (0, 2, 0): -0.5, (0, 0, 2): 1.0}
    v = function_vector(2, "p", "c0")
    for k, c in docs_c20.items():
        if abs(v[cart_powers(2).index(k)] - c) > 1e-15:
            bad.append("C20")
    if abs(function_vector(2, "p", "c1")[cart_powers(2).index((1, 0, 1))] - math.sqrt(3)) > 1e-15:
        bad.append("C21")
    if abs(function_vector(3, "p", "s3")[cart_powers(3).index((2, 1, 0))] - 3 * math.sqrt(10) / 4) > 1e-14:
        bad.append("S33")
    for l in range(0, 8):
        convs = {(l, "c"): ["x" * a + "y" * b + "z" * c if l else "1" for a, b, c in cart_powers(l)]}
        sh = [(0, [l], ["c"], [0.8], [[1.0]])]
        s = overlap(sh, convs, [[0.1, -0.2, 0.3]])
        if np.abs(np.diag(s) - 1).max() > 1e-12:
            bad.append(f"cart-norm-l{l}")
        if l >= 2:
            labels = ["c0"] + [x for m in range(1, l + 1) for x in (f"c{m}", f"s{m}")]
            sp = overlap([(0, [l], ["p"], [1.3], [[1.0]])], {(l, "p"): labels}, [[0.0, 0.0, 0.0]])
            if np.abs(sp - np.eye(2 * l + 1)).max() > 1e-12:
                bad.append(f"pure-orthonormal-l{l}")
    # quadrature overlap of two s primitives against the closed form
    a, b, d = 0.7, 1.9, 0.9
    s = overlap([(0, [0], ["c"], [a], [[1.0]])], {(0, "c"): ["1"]}, [[0, 0, 0]], [(0, [0], ["c"], [b], [[1.0]])], {(0, "c"): ["1"]}, [[0, 0, d]])
    want = (2 * math.sqrt(a * b) / (a + b)) ** 1.5 * math.exp(-a * b / (a + b) * d * d)
    if abs(s[0, 0] - want) > 1e-14:
        bad.append("ss-overlap")
    return bad
