"""CODATA 2018 constants typed by hand; conversion factors TO atomic units (x_au = x_unit * factor)."""

BOHR_M = 5.29177210903e-11          # Bohr radius / m
HARTREE_J = 4.3597447222071e-18     # Hartree energy / J
HARTREE_EV = 27.211386245988        # Hartree energy / eV
ME_KG = 9.1093837015e-31            # electron mass / kg
AVOGADRO = 6.02214076e23            # exact
AU_TIME_S = 2.4188843265857e-17     # atomic unit of time / s
CALORIE_J = 4.184                   # thermochemical calorie, exact
E_CHARGE = 1.602176634e-19

angstrom = 1e-10 / BOHR_M
nanometer = 1e-9 / BOHR_M
meter = 1.0 / BOHR_M
electronvolt = 1.0 / HARTREE_EV
amu = 1e-3 / (ME_KG * AVOGADRO)
second = 1.0 / AU_TIME_S
picosecond = 1e-12 / AU_TIME_S
kcalmol = 1e3 * CALORIE_J / AVOGADRO / HARTREE_J
calmol = CALORIE_J / AVOGADRO / HARTREE_J
kjmol = 1e3 / AVOGADRO / HARTREE_J
debye = 1e-21 / 299792458.0 / (E_CHARGE * BOHR_M)   # 1 D = 1e-21/c C m

ALL = dict(angstrom=angstrom, electronvolt=electronvolt, meter=meter, nanometer=nanometer, second=second,
           picosecond=picosecond, amu=amu, kcalmol=kcalmol, calmol=calmol, kjmol=kjmol)
