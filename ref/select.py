"""Reference model of format selection (independent matcher and decision logic; no iodata import)."""

from __future__ import annotations

import posixpath
import re


def glob_match(name: str, pattern: str) -> bool:
    """Shell-style match for patterns built from literals, '*' and '?' (case-sensitive)."""
    rx = "".join(".*" if ch == "*" else "." if ch == "?" else re.escape(ch) for ch in pattern)
    return re.fullmatch(rx, name, flags=re.S) is not None


def decide(filename, op, fmt, registry):
    """registry: {name: (patterns, set_of_ops)} in registry order.

    Returns ("error", None) or ("ok", set_of_acceptable_module_names).
    """
    if fmt is not None:
        if fmt not in registry:
            return "error", None
        if op not in registry[fmt][1]:
            return "error", None
        return "ok", {fmt}
    base = posixpath.basename(filename)
    cands = {name for name, (pats, ops) in registry.items() if op in ops and any(glob_match(base, p) for p in pats)}
    if not cands:
        return "error", None
    return "ok", cands
