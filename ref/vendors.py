"""Independent writers for Molden / Molekel files and encoders for the documented vendor quirks.

A wavefunction is plain data: atoms [(Z, x, y, z)] in bohr, shells [(icenter, l, kind, exponents, coeffs)]
(segmented), orbital sets [(spin, [(energy, occupation, irrep, coefficient vector)])] with coefficients in the
*standard Molden ordering* of the functions of each shell.  The encoders return what the named program would have
written for the same wavefunction: changed contraction coefficients and/or changed orbital coefficients.
No import of iodata.
"""

from __future__ import annotations

import math

from ref import gto, periodic, units

ANGMOM = "spdfghi"

# standard Molden ordering (Molden format description): 5D: D 0, D+1, D-1, D+2, D-2 ; 7F, 9G alike; Cartesians below
MOLDEN = {
    (0, "c"): ["1"],
    (1, "c"): ["x", "y", "z"],
    (2, "c"): ["xx", "yy", "zz", "xy", "xz", "yz"],
    (3, "c"): ["xxx", "yyy", "zzz", "xyy", "xxy", "xxz", "xzz", "yzz", "yyz", "xyz"],
    (4, "c"): ["xxxx", "yyyy", "zzzz", "xxxy", "xxxz", "xyyy", "yyyz", "xzzz", "yzzz", "xxyy", "xxzz", "yyzz", "xxyz", "xyyz", "xyzz"],
}
for _l in range(2, 6):
    MOLDEN[(_l, "p")] = ["c0"] + [x for m in range(1, _l + 1) for x in (f"c{m}", f"s{m}")]


def nfunc(l, kind):
    return (l + 1) * (l + 2) // 2 if kind == "c" else 2 * l + 1


# ---- vendor encoders ---------------------------------------------------------------------------------------

def _orca_prim(alpha, l, kind):
    n = {(0, "c"): (0, 0, 0), (1, "c"): (1, 0, 0), (2, "p"): (1, 1, 0), (3, "p"): (1, 1, 1), (4, "p"): (2, 1, 1), (5, "p"): (5, 0, 0)}.get((l, kind))
    return gto.cart_norm(alpha, *n) if n else 1.0


def _psi4_old_prim(alpha, l, kind):
    if (l, kind) == (0, "c"):
        return gto.cart_norm(alpha, 0, 0, 0)
    if (l, kind) == (1, "c"):
        return gto.cart_norm(alpha, 1, 0, 0)
    if (l, kind) == (2, "p"):
        return gto.cart_norm(alpha, 1, 1, 0) / math.sqrt(3.0)
    if (l, kind) == (3, "p"):
        return gto.cart_norm(alpha, 1, 1, 1) / math.sqrt(15.0)
    return 1.0


def _turbomole_prim(alpha, l, kind):
    return {(2, "c"): 1 / math.sqrt(3.0), (3, "c"): 1 / math.sqrt(15.0), (4, "c"): 1 / math.sqrt(105.0)}.get((l, kind), 1.0)


# c3, s3 (and c4, s4) have the opposite sign in ORCA files; c5, s5 do not
ORCA_SIGNS = {(3, "p"): [1, 1, 1, 1, 1, -1, -1], (4, "p"): [1, 1, 1, 1, 1, -1, -1, -1, -1], (5, "p"): [1, 1, 1, 1, 1, -1, -1, -1, -1, 1, 1]}

CFOUR_MO = {
    (2, "c"): [1 / math.sqrt(3.0)] * 3 + [1.0] * 3,
    (3, "c"): [1 / math.sqrt(15.0)] * 3 + [1 / math.sqrt(3.0)] * 6 + [1.0],
    (4, "c"): [1 / math.sqrt(105.0)] * 3 + [1 / math.sqrt(15.0)] * 6 + [1 / 3.0] * 3 + [1 / math.sqrt(3.0)] * 3,
}
PSI4_132_MO = {
    (2, "c"): [math.sqrt(x) for x in [1] * 3 + [3] * 3],
    (3, "c"): [math.sqrt(x) for x in [1] * 3 + [5] * 6 + [15]],
    (4, "c"): [math.sqrt(x) for x in [1] * 3 + [7] * 6 + [35 / 3] * 3 + [35] * 3],
}

VENDORS = ("standard", "orca", "psi4-1.0", "turbomole", "cfour", "unnormalized", "psi4-1.3.2")


def allowed(vendor, l, kind):
    """Shell types the vendor's documented quirk covers (others cannot be encoded faithfully)."""
    if vendor == "orca":
        return (l <= 1 and kind == "c") or (l >= 2 and kind == "p" and l <= 5)
    if vendor == "psi4-1.0":
        return (l <= 1 and kind == "c") or (kind == "p" and l in (2, 3))
    if vendor in ("turbomole", "cfour", "psi4-1.3.2"):
        return kind == "c" and l <= 4
    return l <= 4 or (l == 5 and kind == "p")


def encode(vendor, shells, orbitals, scale_seed=0):
    """Return (shells', orbitals', differs) as the vendor would write them; differs=False if identical to standard."""
    new_shells = []
    mo_factors = []
    differs = False
    for j, (ic, l, kind, exps, coeffs) in enumerate(shells):
        coeffs = list(coeffs)
        fac = [1.0] * nfunc(l, kind)
        if vendor == "orca":
            coeffs = [c * _orca_prim(a, l, kind) for a, c in zip(exps, coeffs)]
            fac = [float(s) for s in ORCA_SIGNS.get((l, kind), fac)]
        elif vendor == "psi4-1.0":
            coeffs = [c * _psi4_old_prim(a, l, kind) for a, c in zip(exps, coeffs)]
        elif vendor == "turbomole":
            coeffs = [c * _turbomole_prim(a, l, kind) for a, c in zip(exps, coeffs)]
        elif vendor == "cfour":
            fac = CFOUR_MO.get((l, kind), fac)
        elif vendor == "psi4-1.3.2":
            fac = PSI4_132_MO.get((l, kind), fac)
            s = [1.0, 1.9, 0.6, 2.5][(j + scale_seed) % 4]
            coeffs = [c * s for c in coeffs]
        elif vendor == "unnormalized":
            s = [1.7, 0.55, 2.3, 1.0, 0.8][(j + scale_seed) % 5]
            coeffs = [c * s for c in coeffs]
        if any(abs(a - b) > 1e-15 * abs(b) for a, b in zip(coeffs, shells[j][4])) or any(f != 1.0 for f in fac):
            differs = True
        new_shells.append((ic, l, kind, list(exps), coeffs))
        mo_factors += list(fac)
    new_orbs = []
    for spin, orbs in orbitals:
        new_orbs.append((spin, [(e, o, irr, [c * f for c, f in zip(vec, mo_factors)]) for e, o, irr, vec in orbs]))
    return new_shells, new_orbs, differs


# ---- file writers ------------------------------------------------------------------------------------------

def write_molden(atoms, shells, orbitals, unit="AU", title="reference wavefunction"):
    out = ["[Molden Format]", "[Title]", f" {title}", f"[Atoms] {unit}"]
    conv = 1.0 if unit == "AU" else 1.0 / units.angstrom
    for i, (z, x, y, zc) in enumerate(atoms):
        out.append(f"{periodic.NUM2SYM[z]:<2s} {i + 1:4d} {z:3d} {x * conv:22.14f} {y * conv:22.14f} {zc * conv:22.14f}")
    kinds = {}
    for _, l, kind, _, _ in shells:
        kinds[l] = kind
    d, f, g = kinds.get(2, "c"), kinds.get(3, "c"), kinds.get(4, kinds.get(5, "c"))
    if d == "p" and f == "p":
        out.append("[5D]")
    elif d == "p":
        out.append("[5D10F]")
    elif f == "p":
        out.append("[7F]")
    if g == "p":
        out.append("[9G]")
    out.append("[GTO]")
    for ic in range(len(atoms)):
        mine = [s for s in shells if s[0] == ic]
        if not mine:
            continue
        out.append(f"{ic + 1:4d} 0")
        for _, l, kind, exps, coeffs in mine:
            out.append(f" {ANGMOM[l]} {len(exps):4d} 1.00")
            for a, c in zip(exps, coeffs):
                out.append(f"  {a:.12E}".replace("E", "D") + f"  {c:.12E}".replace("E", "D"))
        out.append("")
    out.append("[MO]")
    for spin, orbs in orbitals:
        for e, occ, irr, vec in orbs:
            out += [f" Sym= {irr}", f" Ene= {e:.12f}", f" Spin= {spin}", f" Occup= {occ:.10f}"]
            out += [f"{i + 1:5d} {c: .16e}" for i, c in enumerate(vec)]
    return "\n".join(out) + "\n"


def write_molekel(atoms, shells, orbitals, charge, mult):
    out = ["$MKL", "#", "# reference wavefunction", "#", "$CHAR_MULT", f" {charge:d} {mult:d}", "$END", "", "$COORD"]
    for z, x, y, zc in atoms:
        out.append(f" {z:3d} {x / units.angstrom:16.10f} {y / units.angstrom:16.10f} {zc / units.angstrom:16.10f}")
    out += ["$END", "", "$BASIS"]
    for ic in range(len(atoms)):
        if ic > 0:
            out.append("$$")
        for _, l, kind, exps, coeffs in [s for s in shells if s[0] == ic]:
            out.append(f" {nfunc(l, kind)} {ANGMOM[l].upper()} 1.00")
            for a, c in zip(exps, coeffs):
                out.append(f" {a:22.12f} {c:22.14f}")
    out += ["", "$END", ""]
    for spin, orbs in orbitals:
        tag = "ALPHA" if spin == "Alpha" else "BETA"
        out.append(f"$COEFF_{tag}")
        nb = len(orbs[0][3])
        for j in range(0, len(orbs), 5):
            blk = orbs[j : j + 5]
            out.append(" " + " ".join(o[2] for o in blk))
            out.append(" " + " ".join(f"{o[0]:.10f}" for o in blk))
            for r in range(nb):
                out.append(" " + " ".join(f"{o[3][r]: .14f}" for o in blk))
        out += [" $END", "", f"$OCC_{tag}"]
        for j in range(0, len(orbs), 5):
            out.append(" " + " ".join(f"{o[1]:.7f}" for o in orbs[j : j + 5]))
        out += [" $END", ""]
    return "\n".join(out) + "\n"
