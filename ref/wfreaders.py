"""Independent readers for AIM WFN, WFX and Gaussian FCHK files (public layouts; no iodata import).

They return the tables the file holds, and `orbitals_at` evaluates what the file *denotes*: for every orbital listed in the
file its values at given points, its occupation, energy and spin label.  Used by C01 to judge a file written by IOData
without going through IOData's own readers.
"""

from __future__ import annotations

import re

import numpy as np

from ref import gto, wfwriters


class Unsupported(Exception):
    """The file uses a feature this reader does not cover (reported as not-judged, never as a violation)."""


def _f(word):
    return float(word.replace("D", "E").replace("d", "E"))


# ---- WFN (AIMPAC) ---------------------------------------------------------------------------------------------

def read_wfn(text):
    lines = text.splitlines()
    head = lines[1]
    m = re.match(r"\s*(\w+)\s+(\d+)\s+MOL ORBITALS\s+(\d+)\s+PRIMITIVES\s+(\d+)\s+NUCLEI", head)
    if not m or m.group(1).upper() != "GAUSSIAN":
        raise Unsupported(f"header {head!r}")
    nmo, nprim, nat = int(m.group(2)), int(m.group(3)), int(m.group(4))
    xyz, charges = [], []
    for ln in lines[2 : 2 + nat]:
        # 'A3,I3,"    (CENTRE",I3,") ",3F12.8,"  CHARGE =",F5.1' - fixed columns
        xyz.append([float(ln[24 + 12 * j : 36 + 12 * j]) for j in range(3)])
        charges.append(float(ln.split("=")[1]))
    pos = 2 + nat

    def ints(prefix, width):
        nonlocal pos
        vals = []
        while len(vals) < nprim:
            ln = lines[pos]
            if not ln.startswith(prefix):
                raise Unsupported(f"expected {prefix!r} at line {pos + 1}")
            body = ln[20:]
            vals += [int(body[k : k + width]) for k in range(0, len(body.rstrip()), width)]
            pos += 1
        return vals[:nprim]

    centers = ints("CENTRE ASSIGNMENTS", 3)
    types = ints("TYPE ASSIGNMENTS", 3)
    exps = []
    while len(exps) < nprim:
        body = lines[pos][10:]
        exps += [_f(body[k : k + 14]) for k in range(0, len(body.rstrip()), 14)]
        pos += 1
    mos = []
    for _ in range(nmo):
        ln = lines[pos]
        m = re.match(r"\s*MO\s*(\d+).*OCC NO =\s*(\S+)\s+ORB\. ENERGY =\s*(\S+)", ln)
        if not m:
            raise Unsupported(f"MO header {ln!r}")
        pos += 1
        coefs = []
        while len(coefs) < nprim:
            body = lines[pos]
            coefs += [_f(body[k : k + 16]) for k in range(0, len(body.rstrip()), 16)]
            pos += 1
        mos.append((int(m.group(1)), _f(m.group(2)), _f(m.group(3)), coefs[:nprim]))
    if lines[pos].strip() != "END DATA":
        raise Unsupported(f"expected END DATA at line {pos + 1}")
    spins = None
    rest = lines[pos + 1 :]
    for i, ln in enumerate(rest):
        if "$MOSPIN" in ln:
            words = " ".join(rest[i + 1 :]).split()
            spins = [int(w) for w in words[:nmo]]
            if len(spins) != nmo:
                raise ValueError(f"$MOSPIN lists {len(spins)} labels for {nmo} orbitals")
    prims = [(c - 1, t, e) for c, t, e in zip(centers, types, exps)]
    label = {1: "alpha", 2: "beta", 3: "both"}
    return {"xyz": np.array(xyz), "charges": charges, "prims": prims, "mos": mos, "spins": None if spins is None else [label[s] for s in spins]}


# ---- WFX ------------------------------------------------------------------------------------------------------

def read_wfx(text):
    sections = {m.group(1).strip(): m.group(2) for m in re.finditer(r"<([^/>][^>]*)>\n(.*?)</\1>", text, re.S)}

    def nums(name, conv=float):
        return [conv(w) for w in sections[name].split()]

    nat = int(sections["Number of Nuclei"].split()[0])
    nprim = int(sections["Number of Primitives"].split()[0])
    nmo = int(sections["Number of Occupied Molecular Orbitals"].split()[0])
    xyz = np.array(nums("Nuclear Cartesian Coordinates")).reshape(nat, 3)
    centers = nums("Primitive Centers", int)
    types = nums("Primitive Types", int)
    exps = nums("Primitive Exponents", _f)
    occs = nums("Molecular Orbital Occupation Numbers", _f)
    ens = nums("Molecular Orbital Energies", _f)
    spin_lines = [ln.strip() for ln in sections["Molecular Orbital Spin Types"].splitlines() if ln.strip()]
    body = sections["Molecular Orbital Primitive Coefficients"]
    blocks = re.split(r"<MO Number>\s*\n\s*(\d+)\s*\n\s*</MO Number>", body)
    mos = []
    for k in range(1, len(blocks), 2):
        coefs = [_f(w) for w in blocks[k + 1].split()]
        if len(coefs) != nprim:
            raise Unsupported(f"MO {blocks[k]} has {len(coefs)} coefficients for {nprim} primitives")
        i = len(mos)
        mos.append((int(blocks[k]), occs[i], ens[i], coefs))
    if len(mos) != nmo or len(centers) != nprim or len(types) != nprim or len(exps) != nprim:
        raise Unsupported("counts in the header do not match the tables")
    label = {"Alpha": "alpha", "Beta": "beta", "Alpha and Beta": "both"}
    return {"xyz": xyz, "charges": nums("Nuclear Charges", _f), "atnums": nums("Atomic Numbers", int), "prims": [(c - 1, t, e) for c, t, e in zip(centers, types, exps)], "mos": mos,
            "spins": [label[s] for s in spin_lines], "nalpha": int(sections["Number of Alpha Electrons"].split()[0]), "nbeta": int(sections["Number of Beta Electrons"].split()[0])}


def primitive_orbitals_at(table, points):
    if any(t > len(wfwriters.WFN_TYPES) for _c, t, _e in table["prims"]):
        raise Unsupported("primitive type beyond g functions")
    return wfwriters.eval_primitive_orbitals(table["xyz"], table["prims"], table["mos"], points)


# ---- FCHK -----------------------------------------------------------------------------------------------------

def read_fchk(text):
    lines = text.splitlines()
    out = {"title": lines[0], "route": lines[1]}
    i = 2
    while i < len(lines):
        ln = lines[i]
        label, kind = ln[:40].strip(), ln[43:44]
        if "N=" in ln[44:]:
            n = int(ln.split("N=")[1])
            vals = []
            i += 1
            while len(vals) < n:
                body = lines[i]
                if kind == "I":
                    vals += [int(body[k : k + 12]) for k in range(0, len(body.rstrip()), 12)]
                elif kind == "R":
                    vals += [_f(body[k : k + 16]) for k in range(0, len(body.rstrip()), 16)]
                else:
                    vals += body.split()
                i += 1
            out[label] = vals[:n]
        else:
            word = ln[44:].split()
            out[label] = int(word[0]) if kind == "I" else _f(word[0]) if kind == "R" else " ".join(word)
            i += 1
    return out


def fchk_model(table):
    """xyz, shells (as in wfwriters.fchk) and the MO coefficient matrices (rows = orbitals)."""
    nat = table["Number of atoms"]
    xyz = np.array(table["Current cartesian coordinates"]).reshape(nat, 3)
    types, nprims, centers = table["Shell types"], table["Number of primitives per shell"], table["Shell to atom map"]
    exps, coefs = table["Primitive exponents"], table["Contraction coefficients"]
    sp = table.get("P(S=P) Contraction coefficients")
    shells, k = [], 0
    for t, n, c in zip(types, nprims, centers):
        if t != -1 and (abs(t), "p" if t < -1 else "c") not in wfwriters.FCHK_CONV:
            raise Unsupported(f"shell type {t}")
        shells.append((c - 1, t, exps[k : k + n], coefs[k : k + n], sp[k : k + n] if (sp is not None and t == -1) else None))
        k += n
    nb, nindep = table["Number of basis functions"], table.get("Number of independent functions", table["Number of basis functions"])
    ca = np.array(table["Alpha MO coefficients"]).reshape(-1, nb)
    cb = np.array(table["Beta MO coefficients"]).reshape(-1, nb) if "Beta MO coefficients" in table else None
    return xyz, shells, ca, cb, nindep


def fchk_basis_at(table, points):
    xyz, shells, _ca, _cb, _n = fchk_model(table)
    return gto.eval_basis(wfwriters.fchk_functions(shells), wfwriters.FCHK_CONV, xyz, points)


def untril(vals, n):
    m = np.zeros((n, n))
    k = 0
    for i in range(n):
        for j in range(i + 1):
            m[i, j] = m[j, i] = vals[k]
            k += 1
    return m


# ---- Molden (standard encoding: contraction coefficients of normalised primitives, every function normalised) -----------

def read_molden(text):
    """Atoms (bohr), shells [(icenter, l, kind, exponents, coefficients)] and orbitals [(spin, energy, occupation, sym, vector)]."""
    from ref import units, vendors

    lines = text.splitlines()
    sections, cur = {}, None
    for ln in lines:
        s = ln.strip()
        if s.startswith("["):
            name = s[1 : s.index("]")].strip().upper()
            cur = name
            sections[cur] = [s[s.index("]") + 1 :].strip()]
        elif cur is not None:
            sections[cur].append(ln)
    if "ATOMS" not in sections or "GTO" not in sections or "MO" not in sections:
        raise Unsupported("missing [Atoms], [GTO] or [MO]")
    unit = sections["ATOMS"][0].upper()
    scale = units.angstrom if unit.startswith("ANGS") else 1.0
    atoms = []
    for ln in sections["ATOMS"][1:]:
        w = ln.split()
        if len(w) >= 6:
            atoms.append((int(w[2]), [float(w[3]) * scale, float(w[4]) * scale, float(w[5]) * scale]))
    pure = {2: False, 3: False, 4: False, 5: False}
    if "5D" in sections or "5D7F" in sections:
        pure[2] = pure[3] = True
    if "5D10F" in sections:
        pure[2] = True
    if "7F" in sections:
        pure[3] = True
    if "9G" in sections:
        pure[4] = pure[5] = True
    shells = []
    body = sections["GTO"][1:]
    i = 0
    while i < len(body):
        w = body[i].split()
        if not w:
            i += 1
            continue
        ic = int(w[0]) - 1
        i += 1
        while i < len(body) and body[i].split():
            w = body[i].split()
            label, nprim = w[0].lower(), int(w[1])
            prims = [[_f(x) for x in body[i + 1 + k].split()] for k in range(nprim)]
            i += 1 + nprim
            if label == "sp":
                shells.append((ic, 0, "c", [p[0] for p in prims], [p[1] for p in prims]))
                shells.append((ic, 1, "c", [p[0] for p in prims], [p[2] for p in prims]))
            else:
                l = vendors.ANGMOM.index(label)
                shells.append((ic, l, "p" if pure.get(l, False) else "c", [p[0] for p in prims], [p[1] for p in prims]))
    nbasis = sum(vendors.nfunc(l, k) for _ic, l, k, _e, _c in shells)
    mos, cur = [], None
    for ln in sections["MO"][1:]:
        s = ln.strip()
        if not s:
            continue
        if "=" in s:
            key, val = [t.strip() for t in s.split("=", 1)]
            if key.lower() == "sym" or cur is None or (cur["vec_started"]):
                if cur is None or cur["vec_started"]:
                    cur = {"sym": None, "ene": None, "spin": "Alpha", "occ": None, "vec": np.zeros(nbasis), "vec_started": False}
                    mos.append(cur)
            k = key.lower()
            if k == "sym":
                cur["sym"] = val
            elif k == "ene":
                cur["ene"] = _f(val)
            elif k == "spin":
                cur["spin"] = val.capitalize()
            elif k == "occup":
                cur["occ"] = _f(val)
        else:
            w = s.split()
            cur["vec"][int(w[0]) - 1] = _f(w[1])
            cur["vec_started"] = True
    return {"atnums": [a[0] for a in atoms], "xyz": np.array([a[1] for a in atoms]), "shells": shells,
            "mos": [(i + 1, m["occ"], m["ene"], m["vec"]) for i, m in enumerate(mos)], "spins": [m["spin"].lower() for m in mos], "syms": [m["sym"] for m in mos]}


def molden_orbitals_at(table, points):
    from ref import vendors

    for _ic, l, k, _e, _c in table["shells"]:
        if (l, k) not in vendors.MOLDEN:
            raise Unsupported(f"shell {l}{k}")
    gshells = [(ic, [l], [k], e, [[c] for c in co]) for ic, l, k, e, co in table["shells"]]
    bv = gto.eval_basis(gshells, vendors.MOLDEN, table["xyz"], points)
    return np.array([m[3] for m in table["mos"]]) @ bv


# ---- Molekel (.mkl) -------------------------------------------------------------------------------------------

def read_molekel(text):
    """Same table as read_molden: atoms in bohr, shells, orbitals with spin labels, occupations, energies."""
    from ref import units, vendors

    blocks, cur = {}, None
    for ln in text.splitlines():
        s = ln.strip()
        if s.startswith("$") and not s.startswith("$$") and s.upper() != "$END":
            cur = s.upper()
            blocks[cur] = []
        elif s.upper() == "$END":
            cur = None
        elif cur is not None:
            blocks[cur].append(ln)
    for need in ("$COORD", "$BASIS", "$COEFF_ALPHA", "$OCC_ALPHA"):
        if need not in blocks:
            raise Unsupported(f"missing {need}")
    atoms = []
    for ln in blocks["$COORD"]:
        w = ln.split()
        if len(w) >= 4:
            atoms.append((int(w[0]), [float(x) * units.angstrom for x in w[1:4]]))
    shells, ic, i, body = [], 0, 0, blocks["$BASIS"]
    ncount = {}
    for l in range(6):
        ncount[(l, (l + 1) * (l + 2) // 2)] = "c"
        if l >= 2:
            ncount[(l, 2 * l + 1)] = "p"
    while i < len(body):
        w = body[i].split()
        if not w:
            i += 1
            continue
        if w[0] == "$$":
            ic += 1
            i += 1
            continue
        nfun, label = int(w[0]), w[1].lower()
        l = vendors.ANGMOM.index(label)
        kind = ncount.get((l, nfun))
        if kind is None:
            raise Unsupported(f"{nfun} functions for a {label} shell")
        exps, coefs = [], []
        i += 1
        while i < len(body):
            w = body[i].split()
            if len(w) != 2:
                break
            try:
                a, c = _f(w[0]), _f(w[1])
            except ValueError:
                break
            if w[1].isalpha():
                break
            exps.append(a)
            coefs.append(c)
            i += 1
        shells.append((ic, l, kind, exps, coefs))
    nbasis = sum(vendors.nfunc(l, k) for _ic, l, k, _e, _c in shells)

    def coeff_block(lines):
        orbs = []  # (sym, energy, vector)
        rows = [ln.split() for ln in lines if ln.split()]
        k = 0
        while k < len(rows):
            syms, ens = rows[k], [_f(x) for x in rows[k + 1]]
            vecs = np.array([[_f(x) for x in rows[k + 2 + r]] for r in range(nbasis)])
            for j in range(len(ens)):
                orbs.append((syms[j] if j < len(syms) else None, ens[j], vecs[:, j]))
            k += 2 + nbasis
        return orbs

    def occ_block(lines):
        return [_f(x) for ln in lines for x in ln.split()]

    mos, spins, syms = [], [], []
    alpha = coeff_block(blocks["$COEFF_ALPHA"])
    occa = occ_block(blocks["$OCC_ALPHA"])
    has_beta = "$COEFF_BETA" in blocks
    for (sym, en, vec), occ in zip(alpha, occa):
        mos.append((len(mos) + 1, occ, en, vec))
        spins.append("alpha" if has_beta else "both")
        syms.append(sym)
    if has_beta:
        for (sym, en, vec), occ in zip(coeff_block(blocks["$COEFF_BETA"]), occ_block(blocks["$OCC_BETA"])):
            mos.append((len(mos) + 1, occ, en, vec))
            spins.append("beta")
            syms.append(sym)
    cm = [ln.split() for ln in blocks.get("$CHAR_MULT", []) if ln.split()]
    return {"atnums": [a[0] for a in atoms], "xyz": np.array([a[1] for a in atoms]), "shells": shells, "mos": mos, "spins": spins, "syms": syms,
            "charge": int(cm[0][0]) if cm else None, "mult": int(cm[0][1]) if cm else None}
