#!/venv/bin/python
"""Which oracle clauses have ever fired?  Runs every archived seeded change (and own mutant) against the check of its
property (quick tier, scratch copy), collects the (check, clause) pairs of all VIOLATION lines and lists the clauses of
each check that no change has triggered so far (candidates for a vacuity review).  Writes seeded/CLAUSES.md."""

import json
import os
import re
import subprocess
import sys
from concurrent.futures import ThreadPoolExecutor

HERE = os.path.dirname(os.path.dirname(os.path.abspath(__file__)))
SEEDED = os.path.join(HERE, "seeded")


def run(job):
    sid, check, patch = job
    log = f"/dev/shm/clause_{sid}_{check}"
    subprocess.run([os.path.join(HERE, "tools", "mutant.sh"), patch, "quick", check], capture_output=True, text=True, check=False, env={**os.environ, "KEEPLOG": log})
    fired = set()
    path = f"{log}.{check}.log"
    if os.path.exists(path):
        for line in open(path):
            m = re.search(r"clause=(\S+) sig=", line)
            if m and "KNOWN-FINDING" not in line:
                fired.add(m.group(1))
        os.remove(path)
    return sid, check, sorted(fired)


def main():
    jobs = []
    for sid in sorted(os.listdir(SEEDED)):
        d = os.path.join(SEEDED, sid)
        if not os.path.isdir(d) or "superseded" in json.load(open(os.path.join(d, "meta.json"))):
            continue
        jobs.append((sid, sid.split("-")[0], os.path.join(d, "patch.diff")))
    with ThreadPoolExecutor(max_workers=4) as ex:
        results = list(ex.map(run, jobs))
    fired = {}
    for sid, check, clauses in results:
        for c in clauses:
            fired.setdefault(check, {}).setdefault(c, []).append(sid)
    rows = ["# Oracle clauses and the seeded changes that triggered them", "", "| check | clause | triggered by |", "|---|---|---|"]
    never = []
    for i in range(1, 21):
        check = f"C{i:02d}"
        ev = json.load(open(os.path.join(HERE, "evidence", f"{check}.json")))
        clauses = sorted(ev["coverage"].get("outcomes_per_clause", {}))
        seen = fired.get(check, {})
        for c in sorted(set(clauses) | set(seen)):
            who = seen.get(c, [])
            rows.append(f"| {check} | {c} | {', '.join(who[:6]) + (' ...' if len(who) > 6 else '') if who else '-'} |")
            if not who:
                never.append((check, c))
    rows += ["", "Outcome groups without a triggering change (either not an oracle - e.g. a statistics bucket - or to be reviewed):", ""] + [f"* {a} {b}" for a, b in never]
    with open(os.path.join(SEEDED, "CLAUSES.md"), "w") as fh:
        fh.write("\n".join(rows) + "\n")
    print("\n".join(rows[-len(never) - 2:]))


if __name__ == "__main__":
    main()
