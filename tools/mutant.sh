#!/bin/sh
# usage: tools/mutant.sh <patch.diff> <tier> <pid> [<pid>...]
# Applies a patch to a scratch copy of /repo (in /dev/shm), runs the named checks against it with
# evidence/replays redirected to the scratch area, prints one summary line per check, removes the copy.
set -u
patch=$(realpath "$1"); tier=$2; shift 2
work=$(mktemp -d /dev/shm/mutant.XXXXXX)
rsync -a --exclude .git /repo/ "$work/repo/"
( cd "$work/repo" && patch -p1 -s < "$patch" ) || { echo "PATCH-FAILED $patch"; rm -rf "$work"; exit 2; }
for pid in "$@"; do
  VERIF_IODATA_ROOT="$work/repo" VERIF_OUT="$work/out" /verif/check "$pid" --tier "$tier" > "$work/$pid.log" 2>&1
  rc=$?
  nviol=$(grep -c '^VIOLATION' "$work/$pid.log")
  echo "MUTANT $(basename $(dirname $patch))/$(basename $patch) check=$pid tier=$tier rc=$rc violations_lines=$nviol $(grep -m1 'sig=' "$work/$pid.log" | cut -c1-160)"
  [ -n "${KEEPLOG:-}" ] && cp "$work/$pid.log" "${KEEPLOG}.$pid.log"
done
rm -rf "$work"
