#!/venv/bin/python
"""Regenerate /verif/MANIFEST.json from the table below (run after adding a check)."""

import json
import os

HERE = os.path.dirname(os.path.dirname(os.path.abspath(__file__)))

BASELINE = "cd /repo && /venv/bin/python -m pytest -ra -q -p no:cacheprovider --timeout=900 --continue-on-collection-errors"

CHECKS = {
    "C10": dict(
        level="exploration",
        technique="exhaustive enumeration: full products of convention tables, complete small hyperoctahedral groups and bounded Cayley-graph BFS, on the real conversion functions",
        text="Every ordered pair of the 10 built-in tables on every shared shell type, the complete groups of (1,c) [48] and (2,p) [3840] conventions, Cayley balls of depth 2/3 around every "
        "built-in entry, every single-label corruption, and all shell sequences <=3 x convention triples are converted by the real code and compared with a signed permutation read off the labels.",
        note="label parser and reference permutation are independent of iodata.convert; exact comparison on vectors of distinct floats",
        design="DESIGN.md §2 C10",
    ),
    "C11": dict(
        level="model_checking",
        technique="explicit-state BFS over operation histories on the real IOData class (ESB), invariants + differential read oracle",
        text="All histories of <=3 (quick) / <=4 (thorough) assignments, clears and reads after each of 132 constructor calls are executed on the real class; "
        "invariants I1-I6 are evaluated in every reached state and on every transition, failing transitions included.",
        note="value menus of 2-4 values per attribute; no model: each trace is an implementation trace; hidden-field hash makes state merging sound",
        design="DESIGN.md §2 C11",
    ),
    "C12": dict(
        level="model_checking",
        technique="explicit-state BFS over assignment histories on the real MolecularOrbitals class + full products over constructor/Shell arguments",
        text="All histories of <=3 assignments/reads from every restricted/unrestricted start object (norba,norbb<=2 quick / <=3 thorough, 4 initial occupation patterns, 3 occs_aminusb settings) with "
        "invariants, read-back and other-spin-unchanged oracles on every transition; full constructor product and all Shell argument combinations with every single shape mismatch.",
        note="menus of 3 arrays per length plus wrong lengths n+1, n-1, 1 (broadcastable); invariants only demand what the statement says",
        design="DESIGN.md §2 C12",
    ),
    "C20": dict(
        level="exploration",
        technique="exhaustive enumeration of small finite input spaces (full Cartesian products) on the real functions, oracle by algebraic identities",
        text="Full products: naturals/check_dm for n=1..12 x 11 spectra (incl. values straddling the acceptance boundary) x 3 overlaps x eps/occ_max settings; volume for all "
        "1-3 vector subsets x orders x signs; all index quadruples n<=4 (quick) / n<=6 (thorough); all letter-case variants and single-character edits of the strtobool vocabulary.",
        note="numeric menus only (6 vectors, 3 overlap kinds); algebraic identities are the oracle (no scipy in the check)",
        design="DESIGN.md §2 C20",
    ),
}

ALL = [f"C{i:02d}" for i in range(1, 21)]
NOT_BUILT = "check not built yet in this round (work in progress; the design in DESIGN.md §2 applies)"


def main():
    checks = []
    for pid in ALL:
        if pid not in CHECKS:
            continue
        c = CHECKS[pid]
        checks.append(
            {
                "property_id": pid,
                "quick_cmd": f"./check {pid} --tier quick",
                "thorough_cmd": f"./check {pid} --tier thorough",
                "evidence_file": f"/verif/evidence/{pid}.json",
                "replay_cmd_template": f"./check {pid} --replay {{path}}",
                "engine": "mc",
                "level_claimed": {"category": c["level"], "text": c["text"], "design_ref": c["design"]},
                "level_note": c["note"],
                "technique": c["technique"],
            }
        )
    doc = {
        "version": 1,
        "setup_cmd": "./setup.sh",
        "hooks": {
            "guard": "IODATA_VERIF",
            "enable": "no source hooks: checks patch iodata.api.open / LineIterator and module tables from outside; /venv has an editable install of /repo so the working tree is imported directly",
            "baseline_off_cmd": BASELINE,
            "source_commits": [],
            "add_only": True,
        },
        "engines": [
            {
                "name": "mc",
                "path": "/verif/mc",
                "serves_properties": sorted(CHECKS),
                "kind_free_text": "hand-written bounded exhaustive explorers running the real iodata code: DBE (deviation-bounded input enumeration), ESB (explicit-state BFS over operation histories), FE (fault / crash-point enumeration), SE (preemption-bounded thread schedules)",
            }
        ],
        "checks": checks,
        "not_applicable": [{"property_id": p, "reason": NOT_BUILT} for p in ALL if p not in CHECKS],
        "notes": "All checks are ./check <id> --tier quick|thorough; exit 0 / exit 1 + VIOLATION line / KNOWN-FINDING lines from known_findings.json. See DESIGN.md.",
    }
    with open(os.path.join(HERE, "MANIFEST.json"), "w") as f:
        json.dump(doc, f, indent=1)
        f.write("\n")


if __name__ == "__main__":
    main()
