#!/venv/bin/python
"""Regenerate /verif/MANIFEST.json from the table below (run after adding a check)."""

import json
import os

HERE = os.path.dirname(os.path.dirname(os.path.abspath(__file__)))

BASELINE = "cd /repo && /venv/bin/python -m pytest -ra -q -p no:cacheprovider --timeout=900 --continue-on-collection-errors"

CHECKS = {
    "C01": dict(
        level="exploration",
        technique="deviation-bounded enumeration (k<=1 quick, k<=2 thorough) of wavefunction objects x 5 targets x allow_changes on the real dump_one/load_one, independent GTO evaluator as oracle on the reloaded object AND on an independent parse of the written file (all five formats); corpus sweep",
        text="Every wavefunction object with <=k deviations over centers, shell set, contraction scheme, shell order, conventions, orbital kind, extras is written to FCHK, Molden, Molekel, WFN, WFX "
        "with and without allow_changes; a written file must reload to the same nuclei, orbital values at 14 probe points, occupations, energies, spin and densities; the written file (FCHK, WFN, WFX, Molden, Molekel) is also parsed by ref/wfreaders.py (no iodata reader) and must denote the same orbitals, occupations, energies and densities; full products shell order x conventions and (FCHK) conventions x stored density matrices; every corpus wavefunction file is converted to every target.",
        note="orbital values by ref/gto.py on the source (rounded to the printed digits of exponents/contractions) and on the reloaded object; tolerances = 0.6 unit in the last printed place, linearly propagated",
        design="DESIGN.md §2 C01",
    ),
    "C02": dict(
        level="exploration",
        technique="deviation-bounded enumeration (k<=3 quick, k<=5 thorough + full product for formats with <=7000 cases) per format on the real dump_one/load_one, digits-aware attribute comparison, deterministic minimisation",
        text="Per read/write format: every object with <=k deviations from a default over atom counts crossing each field width, element sets, coordinate ranges, titles, bonds of every type, "
        "optional attributes/keys, grid shapes and values, matrix sizes is written, reloaded and compared attribute by attribute.",
        note="stored-attribute tables and printed digits typed per format in props/fmtspecs.py / wfnspecs.py; multi-line titles outside the domain",
        design="DESIGN.md §2 C02",
    ),
    "C03": dict(
        level="exploration",
        technique="deviation-bounded enumeration (k<=1 quick, k<=2 thorough) of files produced by independent writers for 22 formats (incl. FCHK, WFN, WFX, MWFN with orbital values evaluated from the file tables, GAMESS punch, QCSchema JSON, ORCA and Q-Chem output) + exhaustive (budgeted) single-token metamorphic substitution on generated and corpus files of all format modules, on the real load_one/load_many",
        text="Independent writers following the public layouts (FCHK, WFN, WFX, MWFN, GAMESS punch, QCSchema JSON, ORCA output, Q-Chem output, XYZ, extXYZ, PDB, MOL2, SDF, GRO, CRD, POSCAR, CHGCAR, LOCPOT, cube, Gaussian input, FCIDUMP, Gaussian log) with counters crossing their widths, column-filling/touching "
        "fields, negative and wide values, every bond type, block boundaries (100+ Hessian row labels, 5-column blocks), name-labelled rows in permuted order, header variants; every loaded attribute compared with the model. Metamorphic: each uniquely locatable numeric token replaced by another value of the same width; "
        "the attribute element that held it must take the new value under the format's unit map.",
        note="hand-typed CODATA factors (5e-9 relative slack for CODATA releases); Molden/Molekel layouts by C05's writers; MWFN and the program logs (GAMESS, ORCA, Q-Chem, CP2K) by the metamorphic part",
        design="DESIGN.md §2 C03",
    ),
    "C04": dict(
        level="exploration",
        technique="exhaustive enumeration of the (quantity x format x format) table on the real loaders/writers with files from independent writers in each format's prescribed unit, hand-typed CODATA constants, physical anchors on corpus files",
        text="All 10 unit constants; one system written in 17 format variants (angstrom/nm/bohr/fractional, ps, nm/ps, amu, eV, electrons per cell): each format vs the model and every ordered pair of formats per quantity; every iodata writer's "
        "output parsed for the prescribed unit; masses loaded from FCHK/extXYZ/CHARMM/QCSchema and re-written to FCHK/QCSchema (conversion chain) in amu; masses of program-written files against standard atomic weights and Q-Chem moments against the printed Debye values.",
        note="5e-9 relative slack between CODATA releases; extended-XYZ energy/forces documented as passed through",
        design="DESIGN.md §2 C04",
    ),
    "C05": dict(
        level="exploration",
        technique="exhaustive product (shell subsets x Cartesian/pure x 7 vendor encodings) + deviation-bounded variation of container/orbitals/threshold/corruption on the real Molden/Molekel loaders, independent encoders and evaluator",
        text="Every non-empty subset of l=0..3 (quick) / 0..5 (thorough), each l>=2 Cartesian or pure, encoded as standard, ORCA, PSI4<=1.0, Turbomole, CFOUR 2.1, unnormalised contractions, PSI4<=1.3.2 by independent writers (primitives listed in decreasing / increasing order, bonded / stretched geometry); "
        "loaded orbitals must equal the true wavefunction at 10 probe points and be orthonormal under the reference overlap, a LoadWarning iff the encoding differs from the standard, corrupted files rejected or normalised within threshold.",
        note="encoders restate the quirks as iodata documents them; any correction label accepted where encodings coincide; corpus vendor files anchor the encoders",
        design="DESIGN.md §2 C05",
    ),
    "C06": dict(
        level="exploration",
        technique="exhaustive grid identity for the 1-D kernel (degree argument), exhaustive table comparison, deviation-bounded enumeration over all ordered shell-type pairs on the real compute_overlap",
        text="1-D kernel: all 64 (n1,n2)<=7 on a full 9x9x9 grid vs Gauss-Hermite quadrature (polynomial identity => all reals); every entry of the Cartesian-to-pure tables l<=7 and normalisation constants; "
        "compute_overlap on all ordered pairs of shell types (l<=4 quick, l<=7 thorough; Cartesian and pure) x k<=1/2 deviations over geometry, contraction (primitives in any order), conventions, one/two bases (incl. the same object at two geometries), exponent sets (distance x primitive order as a full product), "
        "compared with an independent quadrature overlap; symmetry, PSD, transpose, translation and rejection clauses.",
        note="reference = ref/gto.py (closed-form solid harmonics in exact rationals, 30-node Gauss-Hermite); screened contributions (<1e-15 prefactor) are computed by the reference and added to the tolerance",
        design="DESIGN.md §2 C06",
    ),
    "C07": dict(
        level="fault_enumeration",
        technique="exhaustive crash-point / single-fault enumeration on file contents fed to the real load_one/load_many (recording LineIterator, watchdog)",
        text="Every line-boundary truncation of every generated file and of every corpus file up to 300 (quick) / 3000 (thorough) lines (larger: every n-th line, cap recorded), every byte truncation of small generated files, "
        "every single-line delete/duplicate/swap, every single-token substitution from an 11-entry menu (incl. counters off by one and integers beyond 64 bits; on long files every integer token), first/middle/last row deleted from every table of long files, empty/binary/foreign content, explicit fmt= for every module; load_one and load_many (exhausted; closed and dropped after 0, 1, 2 requested frames).",
        note="outcome must be consistent objects or LoadError naming the file with lineno equal to the iterator position; handles closed; watchdog max(20 s, 30x baseline)",
        design="DESIGN.md §2 C07",
    ),
    "C08": dict(
        level="fault_enumeration",
        technique="exhaustive fault enumeration on the real dump_one/dump_many/write_input: every subset of required attributes missing, every rejection reason, every faulty-frame index, an OSError injected at every k-th write call",
        text="Full products over formats x required-attribute subsets x allow_changes x {absent, pre-existing} target; prepare_dump rejection reasons; unselectable formats; dump_many with faulty frame 0/1/2/none/empty x list/generator; "
        "write faults at every write call of the fault-free run (cap 200 quick / 2000 thorough; at the first, second and last write also an exception without arguments and a DumpError); judged on exception type, preserved bytes, audit record of opens, closure of every opened file.",
        note="iodata.api.open replaced from outside by a counting/faulting wrapper; sys.addaudithook records opens; objects are the 3-atom default case of each format",
        design="DESIGN.md §2 C08",
    ),
    "C09": dict(
        level="exploration",
        technique="deviation-bounded enumeration over the 13 dump formats + full product (contraction x orbital kind x target x allow_changes); deep bit-exact snapshot of a twin object vs the dumped object",
        text="Every object of the C02 space (k<=1 quick, k<=3 thorough; QCSchema always k>=2) is dumped with allow_changes False/True, three times, with read-only arrays and through dump_many; a file written without conversion must denote the object; every ordered pair of wavefunction targets dumped from one object in a row (with / without a basis change in between) against a fresh object; "
        "objects needing conversion (generalized contractions, occs_aminusb) for every wavefunction target; write_input for both programs. Snapshots, member identity, return-value contract and "
        "equivalence of converted objects (density, spin density, nelec, spinpol, basis functions in order).",
        note="twin object built by the same deterministic constructor provides the 'before' snapshot, so observing does not disturb the object under test",
        design="DESIGN.md §2 C09",
    ),
    "C10": dict(
        level="exploration",
        technique="exhaustive enumeration: full products of convention tables, complete small hyperoctahedral groups and bounded Cayley-graph BFS, on the real conversion functions",
        text="Every ordered pair of the 10 built-in tables on every shared shell type, the complete groups of (1,c) [48] and (2,p) [3840] conventions, Cayley balls of depth 2/3 around every "
        "built-in entry, every single-label corruption, and all shell sequences <=3 x convention triples are converted by the real code and compared with a signed permutation read off the labels.",
        note="label parser and reference permutation are independent of iodata.convert; exact comparison on vectors of distinct floats",
        design="DESIGN.md §2 C10",
    ),
    "C11": dict(
        level="model_checking",
        technique="explicit-state BFS over operation histories on the real IOData class (ESB), invariants + differential read oracle",
        text="All histories of <=3 (quick) / <=6 (thorough) assignments, clears and reads after each of 132 constructor calls are executed on the real class; "
        "invariants I1-I6 are evaluated in every reached state and on every transition, failing transitions included.",
        note="value menus of 2-4 values per attribute; no model: each trace is an implementation trace; hidden-field hash makes state merging sound",
        design="DESIGN.md §2 C11",
    ),
    "C12": dict(
        level="model_checking",
        technique="explicit-state BFS over assignment histories on the real MolecularOrbitals class + full products over constructor/Shell arguments",
        text="All histories of <=3 (quick) / <=5 (thorough) assignments/reads from every restricted/unrestricted start object (norba,norbb<=2 quick / <=3 thorough, 5 initial occupation patterns incl. occupations within 1e-10 of integers, 3 occs_aminusb settings) with "
        "invariants, read-back and other-spin-unchanged oracles on every transition; full constructor product and all Shell argument combinations with every single shape mismatch.",
        note="menus of 3 arrays per length plus wrong lengths n+1, n-1, 1 (broadcastable); invariants only demand what the statement says",
        design="DESIGN.md §2 C12",
    ),
    "C13": dict(
        level="fault_enumeration",
        technique="exhaustive enumeration of frame sequences (length<=3 quick, <=5 + 50 thorough) x formats x iterable kinds on the real dump_many/load_many, plus every-line truncation and every-numeric-field corruption of multi-frame files",
        text="All sequences over a 6-frame menu for XYZ/PDB/MOL2/SDF given as list, generator and generator raising at each item; event log of pulls and writes (laziness); reloaded frames bit-identical to per-frame dump_one+load_one; read side: all sequences (<=3, thorough <=4) of 5-6 heterogeneous frame texts from independent writers for XYZ/SDF/MOL2/PDB/GRO/extXYZ, every frame bit-identical to the same text loaded alone in a fresh forked process; "
        "truncation after every line and {x,1e,-,999999} in every numeric field of every non-last frame for XYZ, PDB, MOL2, SDF, GRO, extXYZ; corpus FCHK trajectories vs an independent parse.",
        note="a truncated/corrupted last frame may be dropped; a corrupted field may change only its own frame",
        design="DESIGN.md §2 C13",
    ),
    "C14": dict(
        level="exploration",
        technique="exhaustive enumeration of shell sequences / orbital sets on the real conversion functions, independent function evaluator as oracle",
        text="All shell sequences of length <=3 over 10 shell kinds (quick) / <=4 over 12 (thorough) x keep_sp, all restricted orbital sets norb<=4 x occupation pattern (closed, open, fractional, near-integer) x occs_aminusb x missing arrays, "
        "each x allow_changes for prepare_*; structure, function values in order, overlap, idempotence, same-object and warning/error contract.",
        note="function values by ref/gto.py at 8 probe points; expected alpha/beta occupations restated from the class documentation",
        design="DESIGN.md §2 C14",
    ),
    "C15": dict(
        level="model_checking",
        technique="explicit exploration of conversion chains of depth 3 (dump/load cycles) from every start object of the C02 case space (k<=2 quick, k<=3 thorough), every corpus file x accepting format, and generated wavefunctions in foreign conventions / shell orders; bit-identity of reached states and byte-identity of files",
        text="For every C02 case the chain x0 -> x1 -> x2 -> x3 (dump_one/load_one in the same format) is executed; x2 must be bit-identical to x1, x3 to x2 and file 3 byte-identical to file 2 (fixpoint at depth 1).",
        note="states are deep snapshots of every attrs field (arrays by dtype/shape/bytes); QCSchema provenance growth is filtered as documented",
        design="DESIGN.md §2 C15",
    ),
    "C16": dict(
        level="model_checking",
        technique="explicit-state exploration of call histories on real process state (every call, every ordered pair, triples of a sub-pool; fresh-interpreter baseline per call) + preemption-bounded (<=2) exhaustive "
        "thread-schedule exploration with a hand-written scheduler (sys.settrace + semaphore baton)",
        text="65 API calls (every format's load/dump/write_input on corpus or generated data, failing calls, ghost atoms): each history starts from the initial interpreter state in a forked child; every step's result must equal the "
        "call alone in a fresh interpreter and the snapshot of all module-level tables and the warnings machinery must remain the initial state (1 state, self-loops only). Threads: all schedules with <=2 preemptions of pairs "
        "(thorough: 15 pairs + 2 triples) of 6 cheap calls, scheduling points at every line of the API wrapper and of catch_warnings.__enter__/__exit__; dense pass: pairs of calls into the SAME format module (5 pairs quick, 22 thorough) with a scheduling point at every line of iodata code (first 2 / 4 visits of each line per thread), all schedules with <=1 preemption; "
        "interleaved frame iterators: every order of the 4+4 steps of two load_many iterators over 21 format pairs, plus an unrelated load_one at every position of three orders; fault history: damaged siblings (every numeric token scaled / integer incremented) of 4-12 corpus files judged identically in a fresh child process and in one that loaded the intact file first; failed-load history: after a load of every damaged sibling of 4-8 wavefunction files a menu of row-deleted / counter-decremented probe files must be judged as in a child without that load; same argument object written three times in a row (optionally another format in between) against a fresh equal object; dense pass with 2 preemptions for xyz dump/dump (thorough: 3 pairs); watch pass: module tables fingerprinted at the first visit of every line of every pool call.",
        note="thread results compared with the same calls run alone; harness records warnings through one process-wide hook (no catch_warnings in threads); executions capped at 3000/60000 per group (cap recorded)",
        design="DESIGN.md §2 C16",
    ),
    "C17": dict(
        level="exploration",
        technique="exhaustive enumeration of (file name x operation x explicit format) on the real selector and through the public API with recording stubs and a file-system audit hook",
        text="Every name derived from every pattern (+45 ambiguous names) x 4 operations x 29 explicit-format values judged by an independent matcher; public-API dispatch with audit hook; "
        "3 interpreters with different hash seeds; every declared attribute name; every guaranteed attribute on every loadable corpus file.",
        note="patterns/operations are read from the modules (they are the declarations under test); an empty dict counts as set",
        design="DESIGN.md §2 C17",
    ),
    "C18": dict(
        level="exploration",
        technique="exhaustive enumeration of (input file x target format x option set) through the real iodata.__main__.main() and python -m iodata subprocesses, byte comparison with the API path",
        text="Generated files of every writable format and small corpus files x 13 targets x {-i} x {-o} x {-c} x {-m}; output bytes equal to the API calls' output on success, pre-existing output preserved on pre-flight rejections, "
        "never success with different content; subprocess cross-section for exit status and stderr.",
        note="API reference executed without floating-point trapping in the same worker; a CLI failure where the API succeeds is allowed by the statement and only counted",
        design="DESIGN.md §2 C18",
    ),
    "C19": dict(
        level="exploration",
        technique="deviation-bounded enumeration (k<=4 quick, k<=7 thorough) over 11 input axes on the real write_input, field-wise parse against independently computed fields",
        text="All cases with <=2 (quick) / <=4 (thorough) deviations from the default over program, molecule, charge, spin, run type, lot, basis, title, template, atom_line callback, kwargs.",
        note="hand-typed periodic table and CODATA angstrom; ties x.5 accept both neighbours; layout parsed by tokens",
        design="DESIGN.md §2 C19",
    ),
    "C20": dict(
        level="exploration",
        technique="exhaustive enumeration of small finite input spaces (full Cartesian products) on the real functions, oracle by algebraic identities",
        text="Full products: naturals/check_dm for n=1..12 x 11 spectra (incl. values straddling the acceptance boundary) x 3 overlaps x eps/occ_max settings; volume for all "
        "1-3 vector subsets x orders x signs; all index quadruples n<=4 (quick) / n<=6 (thorough); all letter-case variants, single-character edits and two-sided decorations (15-character alphabet) of the strtobool vocabulary.",
        note="numeric menus only (6 vectors, 3 overlap kinds); algebraic identities are the oracle (no scipy in the check)",
        design="DESIGN.md §2 C20",
    ),
}

ALL = [f"C{i:02d}" for i in range(1, 21)]
NOT_BUILT = "check not built yet in this round (work in progress; the design in DESIGN.md §2 applies)"


def main():
    checks = []
    for pid in ALL:
        if pid not in CHECKS:
            continue
        c = CHECKS[pid]
        checks.append(
            {
                "property_id": pid,
                "quick_cmd": f"./check {pid} --tier quick",
                "thorough_cmd": f"./check {pid} --tier thorough",
                "evidence_file": f"/verif/evidence/{pid}.json",
                "replay_cmd_template": f"./check {pid} --replay {{path}}",
                "engine": "mc",
                "level_claimed": {"category": c["level"], "text": c["text"], "design_ref": c["design"]},
                "level_note": c["note"],
                "technique": c["technique"],
            }
        )
    doc = {
        "version": 1,
        "setup_cmd": "./setup.sh",
        "hooks": {
            "guard": "IODATA_VERIF",
            "enable": "no source hooks: checks patch iodata.api.open / LineIterator and module tables from outside; /venv has an editable install of /repo so the working tree is imported directly",
            "baseline_off_cmd": BASELINE,
            "source_commits": [],
            "add_only": True,
        },
        "engines": [
            {
                "name": "mc",
                "path": "/verif/mc",
                "serves_properties": sorted(CHECKS),
                "kind_free_text": "hand-written bounded exhaustive explorers running the real iodata code: DBE (deviation-bounded input enumeration), ESB (explicit-state BFS over operation histories), FE (fault / crash-point enumeration), SE (preemption-bounded thread schedules)",
            }
        ],
        "checks": checks,
        "not_applicable": [{"property_id": p, "reason": NOT_BUILT} for p in ALL if p not in CHECKS],
        "notes": "All checks are ./check <id> --tier quick|thorough; exit 0 / exit 1 + VIOLATION line / KNOWN-FINDING lines from known_findings.json. See DESIGN.md.",
    }
    with open(os.path.join(HERE, "MANIFEST.json"), "w") as f:
        json.dump(doc, f, indent=1)
        f.write("\n")


if __name__ == "__main__":
    main()
