#!/bin/sh
# usage: [DEST_I=<n>] tools/seed_verify.sh <PID> <i> [extra check ids...]   (DEST_I: archive as <PID>-<n> instead of <PID>-<i>)
# Confirms an independently produced property-breaking change (from /tmp/seed_<PID>/SEED<i>.diff + SEED<i>_demo.py):
#   applies to a scratch worktree of /repo HEAD, demo fails with / passes without, pinned tests still pass,
# then runs the named checks (default: <PID>, quick tier) against the changed tree and stores everything under /verif/seeded/.
set -u
pid=$1; i=$2; shift 2
checks="$pid $*"
src=/tmp/seed_$pid
id="$pid-${DEST_I:-$i}"
dest=/verif/seeded/$id
wt=/tmp/vseed_$id
[ -f "$src/SEED$i.diff" ] || { echo "no $src/SEED$i.diff"; exit 2; }
[ -e "$dest" ] && [ -z "${FORCE:-}" ] && { echo "SEED $id: $dest exists already (choose another DEST_I or set FORCE=1)"; exit 2; }
git -C /repo worktree remove --force "$wt" 2>/dev/null
git -C /repo worktree add -q "$wt" HEAD || exit 2
( cd "$wt" && git apply "$src/SEED$i.diff" ) || { echo "SEED $id: patch does not apply"; git -C /repo worktree remove --force "$wt"; exit 2; }
# run the demo from a neutral directory (the script's own directory is sys.path[0] and must not contain an iodata package)
demodir=$(mktemp -d /tmp/vseed_demo.XXXXXX)
cp "$src/SEED${i}_demo.py" "$demodir/demo.py"
( cd "$demodir" && PYTHONPATH="$wt" /venv/bin/python demo.py > /tmp/vseed_$id.demo_with.log 2>&1 ); rc_with=$?
( cd "$demodir" && PYTHONPATH=/repo /venv/bin/python demo.py > /tmp/vseed_$id.demo_without.log 2>&1 ); rc_without=$?
rm -rf "$demodir"
( cd "$wt" && PYTHONPATH="$wt" /venv/bin/python -m pytest -q -p no:cacheprovider --timeout=900 --continue-on-collection-errors 2>&1 | grep -E "passed|failed" | tail -1 > /tmp/vseed_$id.tests.log )
tests=$(cat /tmp/vseed_$id.tests.log)
mkdir -p "$dest"
cp "$src/SEED$i.diff" "$dest/patch.diff"
cp "$src/SEED${i}_demo.py" "$dest/demo.py"
[ -f "$src/SEED${i}_notes.md" ] && cp "$src/SEED${i}_notes.md" "$dest/notes.md"
results=""
for c in $checks; do
  line=$(/verif/tools/mutant.sh "$dest/patch.diff" quick "$c" | tail -1)
  results="$results$line\n"
done
printf "%b" "$results" > "$dest/check_results.txt"
git -C /repo worktree remove --force "$wt"
cat > "$dest/meta.json" <<EOF
{
 "id": "$id",
 "property": "$pid",
 "demo_exit_with_change": $rc_with,
 "demo_exit_without_change": $rc_without,
 "pinned_tests_with_change": "$tests",
 "ran": "tools/seed_verify.sh $pid $i $*",
 "needs_to_manifest": "see notes.md",
 "checks_quick": "see check_results.txt"
}
EOF
echo "SEED $id: demo with=$rc_with without=$rc_without tests='$tests'"
printf "%b" "$results"
