#!/venv/bin/python
"""Re-run the relevant quick checks against every archived seeded change and regenerate seeded/INDEX.md.

usage: tools/seed_recheck.py [--only C01-1,C02-2] [--extra C06:C10-1,C14:C09-2]
For each seeded/<id>/ the check of its own property is run (plus extra checks given as CHECK:ID pairs).
"""

import json
import os
import subprocess
import sys
from concurrent.futures import ThreadPoolExecutor

HERE = os.path.dirname(os.path.dirname(os.path.abspath(__file__)))
SEEDED = os.path.join(HERE, "seeded")
EXTRA = {"C10-16": ["C06"], "C16-16": ["C09"], "C02-13": ["C01"], "C07-14": ["C16"], "C10-1": ["C06"], "C02-10": ["C01"], "C02-11": ["C01"], "C17-12": ["C08"], "C09-5": ["C01", "C08"], "C09-8": ["C08", "C01"], "C10-4": ["C06"], "C14-4": ["C12"], "C09-2": ["C14"], "C02-2": ["C03"], "C04-2": ["C09", "C15"], "C15-1": ["C02"], "C04-1": ["C03"], "C12-1": [], "C08-2": ["C01"]}


def run(sid, check):
    patch = os.path.join(SEEDED, sid, "patch.diff")
    out = subprocess.run([os.path.join(HERE, "tools", "mutant.sh"), patch, "quick", check], capture_output=True, text=True, check=False).stdout.strip().splitlines()
    return out[-1] if out else f"MUTANT {sid} check={check} NO OUTPUT"


def main():
    only = None
    for a in sys.argv[1:]:
        if a.startswith("--only"):
            only = set(sys.argv[sys.argv.index(a) + 1].split(","))
    ids = sorted(d for d in os.listdir(SEEDED) if os.path.isdir(os.path.join(SEEDED, d)))
    jobs = []
    for sid in ids:
        if only and sid not in only:
            continue
        prop = sid.split("-")[0]
        if "superseded" in json.load(open(os.path.join(SEEDED, sid, "meta.json"))):
            continue  # the patch no longer applies to the repaired tree; meta.json names the equivalent mutant
        for c in [prop] + EXTRA.get(sid, []):
            jobs.append((sid, c))
    with ThreadPoolExecutor(max_workers=4) as ex:
        results = list(ex.map(lambda j: (j, run(*j)), jobs))
    per = {}
    for (sid, c), line in results:
        per.setdefault(sid, []).append(line)
    for sid, lines in per.items():
        with open(os.path.join(SEEDED, sid, "check_results.txt"), "w") as fh:
            fh.write("\n".join(lines) + "\n")
    # index
    rows = ["# Seeded property-breaking changes", "",
            "Each directory holds `patch.diff` (apply with `git -C /repo apply`), `demo.py` (exit 1 with the change, 0 without), `notes.md` (what it needs to manifest), "
            "`meta.json` (confirmation run) and `check_results.txt` (quick-tier verdicts of the checks, produced by `tools/mutant.sh` on a scratch copy).", "",
            "| id | property | demo with/without | pinned tests with change | caught by (quick tier) | first signature |", "|---|---|---|---|---|---|"]
    for sid in ids:
        d = os.path.join(SEEDED, sid)
        meta = json.load(open(os.path.join(d, "meta.json")))
        caught, sig = [], ""
        missed = []
        if os.path.exists(os.path.join(d, "check_results.txt")):
            for line in open(os.path.join(d, "check_results.txt")):
                if "check=" not in line:
                    continue
                c = line.split("check=")[1].split()[0]
                rc = line.split("rc=")[1].split()[0]
                if rc == "1":
                    caught.append(c)
                    if not sig and "sig=" in line:
                        sig = line.split("sig=")[1].strip()[:90]
                else:
                    missed.append(f"{c}(rc={rc})")
        if "superseded" in meta:
            caught, missed, sig = ["(superseded, see meta.json)"], [], ""
        rows.append(f"| {sid} | {meta['property']} | {meta['demo_exit_with_change']}/{meta['demo_exit_without_change']} | {meta['pinned_tests_with_change'][:22]} | "
                    f"{', '.join(caught) or '-'}{(' ; not by ' + ', '.join(missed)) if missed else ''} | `{sig}` |")
    with open(os.path.join(SEEDED, "INDEX.md"), "w") as fh:
        fh.write("\n".join(rows) + "\n")
    print("\n".join(rows[-len(ids):]))


if __name__ == "__main__":
    main()
