#!/bin/sh
# usage: tools/run_all.sh <tier> [seed]   -- runs every registered check once, prints one line per check
tier=${1:-quick}; seed=${2:-0}
cd /verif
for i in $(seq -w 1 20); do
  pid=C$i
  start=$(date +%s)
  VERIF_SEED=$seed ./check $pid --tier $tier > /dev/shm/runall_$pid.log 2>&1
  rc=$?
  end=$(date +%s)
  echo "$pid rc=$rc $((end-start))s $(grep -c '^VIOLATION' /dev/shm/runall_$pid.log) violations, $(grep -c '^KNOWN-FINDING' /dev/shm/runall_$pid.log) known | $(grep "^$pid tier" /dev/shm/runall_$pid.log | cut -c1-120)"
done
